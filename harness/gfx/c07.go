package main

// C07: every string returned by both encoders is one line; flattening keeps all
// non-white-space characters.  Every string field of InboundMessage / OutboundMessage is
// reached by reflection and filled with strings holding line breaks at every position.

import (
	"fmt"
	"sort"
	"strconv"
	"strings"

	rwl "github.com/SKAARHOJ/rawpanel-lib"
	rwp "github.com/SKAARHOJ/rawpanel-lib/ibeam_rawpanel"
	"google.golang.org/protobuf/proto"
	"google.golang.org/protobuf/reflect/protoreflect"
)

func init() {
	props["C07"] = genC07
	replays["C07"] = replayC07
}

// all paths to string fields of a message type ("States[].HWCText.Title")
func stringPaths(md protoreflect.MessageDescriptor, path string, depth int, res *[]string) {
	if depth > 6 {
		return
	}
	fs := md.Fields()
	for i := 0; i < fs.Len(); i++ {
		f := fs.Get(i)
		p := string(f.Name())
		if path != "" {
			p = path + "." + p
		}
		if f.IsMap() {
			continue
		}
		if f.IsList() {
			p += "[]"
		}
		switch f.Kind() {
		case protoreflect.StringKind:
			*res = append(*res, p)
		case protoreflect.MessageKind:
			stringPaths(f.Message(), p, depth+1, res)
		}
	}
}

// setPath populates the message along path and sets the string leaf
func setPath(m protoreflect.Message, path string, value string) {
	parts := strings.Split(path, ".")
	for i, part := range parts {
		isList := strings.HasSuffix(part, "[]")
		name := strings.TrimSuffix(part, "[]")
		fd := m.Descriptor().Fields().ByName(protoreflect.Name(name))
		if fd == nil {
			return
		}
		last := i == len(parts)-1
		if last {
			if isList {
				m.Mutable(fd).List().Append(protoreflect.ValueOfString(value))
			} else {
				m.Set(fd, protoreflect.ValueOfString(value))
			}
			return
		}
		if isList {
			l := m.Mutable(fd).List()
			var e protoreflect.Value
			if l.Len() == 0 {
				e = l.NewElement()
				l.Append(e)
			} else {
				e = l.Get(0)
			}
			m = e.Message()
		} else {
			m = m.Mutable(fd).Message()
		}
	}
}

func encodeIn(msg *rwp.InboundMessage) (outs []string, panicked bool) {
	defer func() {
		if r := recover(); r != nil {
			panicked = true
		}
	}()
	for _, st := range msg.States { // the encoder only emits states that address a component
		if len(st.HWCIDs) == 0 {
			st.HWCIDs = []uint32{5}
		}
	}
	return rwl.InboundMessagesToRawPanelASCIIstrings([]*rwp.InboundMessage{msg}), false
}

func encodeOut(msg *rwp.OutboundMessage) (outs []string, panicked bool) {
	defer func() {
		if r := recover(); r != nil {
			panicked = true
		}
	}()
	outs = rwl.OutboundMessagesToRawPanelASCIIstrings([]*rwp.OutboundMessage{msg})
	sort.Strings(outs) // map= lines come in map order; the oracle is order-independent
	return outs, false
}

func outsSx(outs []string, panicked bool) Sx {
	if panicked {
		return Sym("panic")
	}
	r := []Sx{}
	for _, o := range outs {
		r = append(r, Sx(o))
	}
	return r
}

var c07stats = map[string]int{}

// flattened fields: path -> (kind, prefix of the produced line)
var flatIn = map[string][2]string{"Command.SetCalibrationProfile.Json": {"json", "SetCalibrationProfile="}}
var flatOut = map[string][2]string{
	"PanelTopology.Svgbase":          {"svg", "_panelTopology_svgbase="},
	"PanelTopology.Json":             {"json", "_panelTopology_HWC="},
	"BurninProfile.Json":             {"json", "_burninProfile="},
	"CalibrationProfile.Json":        {"json", "_calibrationProfile="},
	"DefaultCalibrationProfile.Json": {"json", "_defaultCalibrationProfile="},
	"ErrorMessage.Message":           {"msg", "ErrorMsg="},
	"Message.Message":                {"msg", "Msg="},
}

func fieldCase(side, path, value string) {
	var outs []string
	var p bool
	if side == "in" {
		msg := &rwp.InboundMessage{}
		setPath(msg.ProtoReflect(), path, value)
		outs, p = encodeIn(msg)
	} else {
		msg := &rwp.OutboundMessage{}
		setPath(msg.ProtoReflect(), path, value)
		outs, p = encodeOut(msg)
	}
	emit(L(Sym("field"), Sym(side), path, value, outsSx(outs, p)))
	c07stats["field "+side]++
	fl := flatOut
	if side == "in" {
		fl = flatIn
	}
	if kp, ok := fl[path]; ok {
		emit(L(Sym("flat"), Sym(kp[0]), Sym(side), kp[1], value, outsSx(outs, p)))
		c07stats["flat "+kp[0]]++
	}
}

// strings with line breaks at first / last / every position, CRLF, lone CR, U+2028, tabs
func brokenStrings(rng *Rng, thorough bool) []string {
	// the last bases carry characters that are special to formatting functions, templates and regular
	// expressions (seed C07-7: a payload used as a fmt format string loses everything after a '%')
	bases := []string{"Abc def", "x", "", "{\"a\": [1, 2],\n  \"b\": \"c d\"}", "Tïtle € 1",
		// lines that LOOK like comments / directives / separators to some tool: nothing is special in a payload
		"load from\n//nas01/panels/config.json\n(denied)", "a\n  // do not power off //\nb", "k: 1\n# note\n; semi\n-- dash\n/* c */\n* star\nREM x\n<!-- y -->\n% z\n' q\n\"\"\"\nend",
		"{\n  // measured 2024\n  \"gain\": 3\n}", "---\n...\n===\n>>>\n<<<\n|||\n&&&",
		"Calibration 50% done", "{\"Unit\": \"%\", \"Label\": \"Gain %d %s %v\"}", "100%% a\\nb $1 ${x} \\1 %[1]d %", "%", "a%"}
	breaks := []string{"\n", "\r\n", "\r", "\u2028", "\t", "\n\n", " \n ", "\n\t", "\u00a0\n", "\n\u3000"}
	var res []string
	for _, b := range bases {
		res = append(res, b)
		for _, br := range breaks {
			res = append(res, br+b, b+br)
			for i := 1; i < len(b); i++ {
				if thorough || i <= 3 || i == len(b)-1 {
					res = append(res, b[:i]+br+b[i:])
				}
			}
			res = append(res, strings.Join(strings.Split(b, ""), br)) // at every position
		}
	}
	n := 40
	if thorough {
		n = 400
	}
	for i := 0; i < n; i++ { // random mixtures, incl. invalid UTF-8 and Unicode spaces at line ends
		var sb strings.Builder
		for k := rng.Intn(8); k > 0; k-- {
			sb.WriteString([]string{"a", "b c", "\n", "\r\n", " ", "\t", "\u00e9", "\xff", "\x80", "\u00a0", "\u2028", ">", "<t>", "=", "\xe2\x80", "%", "%d", "%s%", "\\", "$1"}[rng.Intn(20)])
		}
		res = append(res, sb.String())
	}
	return res
}

// ---- SVG documents from a small grammar, re-broken across lines in every way ----
var svgDocs = [][]string{
	{"<svg>", "<g>", "</g>", "</svg>"},
	{"<svg a=\"1\">", "<text>", "hello", "world", "</text>", "</svg>"},
	{"<svg>", "<path d=\"M 1 2", "L 3 4", "L 5 6\"/>", "</svg>"},
	{"<svg>", "<rect x", "=", "\"5\"", "y=\"6\"/>", "</svg>"},
	{"<svg>", "text before", "<g/>", "text after", "</svg>"},
	{"<a>", "1 > 0", "&gt;", "</a>"},
	{"<svg", "width=\"10\"", ">", "<g>", "x", "</g></svg>"},
	{"<path d=\"M0,0", "C1,1", "2,2", "3,3", "z\"", "/>"},
	{"<t>", ">", "<", "x>", "y", "</t>"},
	{"<svg>", "<!-- c", "omment -->", "é", "ü>", "</svg>"},
	// line ends / starts directly beside '-', '=', '"', digits
	{"<path d=\"M", "-5 20", "L 3", "-", "4-", "-6\"/>"},
	{"<text font-family=\"Helvetica-", "Bold\">", "a-", "-b", "--", "</text>"},
	{"<!--", "comment", "-->", "<g/>"},
	{"<rect x", "=", "\"", "-1", "\"", "/>"},
	{"<a b=", "\"1", "2\"", "c", "=\"3\"", ">"},
}

// a line break (LF or LF + indent, optionally with a trailing blank / CR before it) at EVERY single
// position of these documents, so that every character is met first and last on a line
var svgEveryPos = []string{
	"<svg w=\"-1\"><!-- a-b --><path d=\"M-5,20 L3-4 -6.5e-3\"/><text x=\"0\">a - b=c \"q\" 1<2>3</text></svg>",
	"{\"a\":-1,\"b-c\":\"x=y\",\"d\":[1,-2,3.5e-7],\"e\":\"<->\"}",
}
var gaps = []string{"", " ", "\n", "\n  "}

func svgCases(rng *Rng, thorough bool) {
	for _, doc := range svgDocs {
		n := len(doc) - 1
		total := 1
		for i := 0; i < n; i++ {
			total *= len(gaps)
		}
		for c := 0; c < total; c++ {
			var sb strings.Builder
			x := c
			for i, tok := range doc {
				sb.WriteString(tok)
				if i < n {
					sb.WriteString(gaps[x%len(gaps)])
					x /= len(gaps)
				}
			}
			svg := sb.String()
			if c%7 == 0 { // leading / trailing break as well
				svg = gaps[rng.Intn(4)] + svg + gaps[rng.Intn(4)]
			}
			msg := &rwp.OutboundMessage{PanelTopology: &rwp.PanelTopology{Svgbase: svg, Json: "{}"}}
			outs, p := encodeOut(msg)
			emit(L(Sym("flat"), Sym("svg"), Sym("out"), "_panelTopology_svgbase=", svg, outsSx(outs, p)))
			c07stats["svg re-broken (<= 6 tokens, every gap pattern)"]++
		}
	}
	for _, doc := range svgEveryPos {
		for i := 0; i <= len(doc); i++ {
			for _, br := range []string{"\n", "\n  ", " \n\t", "\r\n"} {
				v := doc[:i] + br + doc[i:]
				for path, kp := range flatOut {
					if path != "PanelTopology.Svgbase" && path != "PanelTopology.Json" && path != "Message.Message" {
						continue
					}
					msg := &rwp.OutboundMessage{}
					setPath(msg.ProtoReflect(), path, v)
					outs, p := encodeOut(msg)
					emit(L(Sym("flat"), Sym(kp[0]), Sym("out"), kp[1], v, outsSx(outs, p)))
					c07stats["one break at every position (beside - = \" < > digits)"]++
				}
			}
		}
	}
	// larger documents, random breaks, CRLF and tabs too
	nr := 300
	if thorough {
		nr = 6000
	}
	toks := []string{"<svg>", "</svg>", "<g id=\"a\">", "</g>", "<path d=\"M 1 2", "L 3 4", "5 6\"/>", "text", "more text", "<rect x=\"1\"", "y=\"2\"/>", "&amp;", ">", "é",
		"-5", "6-", "-", "=", "\"", "<!--", "-->", "x=", "=\"1\"", "7", "a-b"}
	rgaps := []string{"", " ", "\n", "\n  ", "\r\n", "\n\t", "\n\n", "  "}
	for i := 0; i < nr; i++ {
		var sb strings.Builder
		for k := 7 + rng.Intn(30); k > 0; k-- {
			sb.WriteString(toks[rng.Intn(len(toks))])
			sb.WriteString(rgaps[rng.Intn(len(rgaps))])
		}
		svg := sb.String()
		msg := &rwp.OutboundMessage{PanelTopology: &rwp.PanelTopology{Svgbase: svg, Json: "{\n \"a\": 1\n}"}}
		outs, p := encodeOut(msg)
		emit(L(Sym("flat"), Sym("svg"), Sym("out"), "_panelTopology_svgbase=", svg, outsSx(outs, p)))
		c07stats["svg random larger"]++
	}
}

// payloads with ONE very long line followed by further lines (an embedded base64 image, a long
// single-line path, a minified JSON profile): a line-reader with a fixed buffer (bufio.Scanner:
// 64 KiB) silently stops there.  Both tiers; few cases, they are large.
func longLineCases(rng *Rng) {
	sizes := []int{60000, 65534, 65535, 65536, 70000}
	emitFlat := func(side, path string, kp [2]string, value string) {
		var outs []string
		var p bool
		if side == "in" {
			msg := &rwp.InboundMessage{}
			setPath(msg.ProtoReflect(), path, value)
			outs, p = encodeIn(msg)
		} else {
			msg := &rwp.OutboundMessage{}
			setPath(msg.ProtoReflect(), path, value)
			outs, p = encodeOut(msg)
		}
		emit(L(Sym("flat"), Sym(kp[0]), Sym(side), kp[1], value, outsSx(outs, p)))
		c07stats["long single line (60000..200000 bytes) + further lines"]++
	}
	long := func(n int) string {
		b := make([]byte, n)
		for i := range b {
			b[i] = "ABCDEFGHIJKLMNOPQRSTUVWXYZabcdefghijklmnopqrstuvwxyz0123456789+/"[rng.Intn(64)]
		}
		return string(b)
	}
	mk := func(kind string, n int) string {
		switch kind {
		case "svg": // the long line is n bytes INCLUDING its markup; lines before and after
			pre, post := "<image href=\"data:image/png;base64,", "\"/>"
			return "<svg>\n  <g id=\"a\">\n" + pre + long(n-len(pre)-len(post)) + post + "\n  <path d=\"M 1 2\n   L 3 4\"/>\n  </g>\n</svg>\n"
		case "json":
			pre, post := "\"blob\": \"", "\","
			return "{\n" + pre + long(n-len(pre)-len(post)) + post + "\n  \"after\": [1,\n 2]\n}"
		default:
			return "first line\n" + long(n) + "\nlast line"
		}
	}
	for _, n := range sizes {
		for path, kp := range flatOut {
			emitFlat("out", path, kp, mk(kp[0], n))
		}
		for path, kp := range flatIn {
			emitFlat("in", path, kp, mk(kp[0], n))
		}
	}
	emitFlat("out", "PanelTopology.Svgbase", flatOut["PanelTopology.Svgbase"], mk("svg", 200000))
	emitFlat("out", "PanelTopology.Json", flatOut["PanelTopology.Json"], mk("json", 200000))
	emitFlat("out", "Message.Message", flatOut["Message.Message"], mk("msg", 200000))
	emitFlat("in", "Command.SetCalibrationProfile.Json", flatIn["Command.SetCalibrationProfile.Json"], mk("json", 200000))
}

// Histories of encoder calls: what a call produces for a flattened payload must not depend on what
// earlier calls were given (seeds C03-9, C07-9: flattened topology lines cached by object identity, or
// by PART of the content - same SVG base, other JSON).  (a) ONE message object encoded, a flattened field
// edited in place, encoded again; (b) fresh objects that agree in every flattened field but one;
// (c) the other payload kinds in between.  Every call is judged like a single-field case.
func flatHistories(rng *Rng, thorough bool) {
	docs := []string{"{\"a\": 1,\n \"b\": [2, 3]}", "{\"a\": 1,\n \"b\": [2, 4]}", "<svg>\n<g id=\"a\"/>\n</svg>", "<svg>\n<g id=\"b\"/>\n</svg>", "first\nline", "second\nline x", ""}
	paths := []string{}
	for p := range flatOut {
		paths = append(paths, p)
	}
	sort.Strings(paths)
	emitAll := func(msg *rwp.OutboundMessage, vals map[string]string) {
		outs, p := encodeOut(msg)
		for path, v := range vals {
			kp := flatOut[path]
			emit(L(Sym("flat"), Sym(kp[0]), Sym("out"), kp[1], v, outsSx(outs, p)))
			c07stats["flat history "+kp[0]]++
		}
	}
	rounds := 40
	if thorough {
		rounds = 400
	}
	for r := 0; r < rounds; r++ {
		// (a) one object, edited in place between calls
		msg := &rwp.OutboundMessage{}
		vals := map[string]string{}
		for _, p := range paths {
			if rng.Intn(3) > 0 {
				vals[p] = docs[rng.Intn(len(docs))]
				setPath(msg.ProtoReflect(), p, vals[p])
			}
		}
		emitAll(msg, vals)
		for k := 0; k < 4; k++ {
			p := paths[rng.Intn(len(paths))]
			vals[p] = docs[rng.Intn(len(docs))] + strings.Repeat(" ", k)
			setPath(msg.ProtoReflect(), p, vals[p])
			emitAll(msg, vals)
		}
		// (b) fresh objects agreeing in all flattened fields but one
		for k := 0; k < 3; k++ {
			fresh := &rwp.OutboundMessage{}
			p := paths[(r+k)%len(paths)]
			vals[p] = docs[(r+k)%len(docs)] + "\n" + strconv.Itoa(r*10+k)
			for q, v := range vals {
				setPath(fresh.ProtoReflect(), q, v)
			}
			emitAll(fresh, vals)
		}
	}
	// the same for the one flattened inbound field
	im := &rwp.InboundMessage{}
	for k := 0; k < 6; k++ {
		v := docs[k%len(docs)] + strings.Repeat("\n", k%2) + strconv.Itoa(k)
		setPath(im.ProtoReflect(), "Command.SetCalibrationProfile.Json", v)
		outs, p := encodeIn(im)
		emit(L(Sym("flat"), Sym("json"), Sym("in"), "SetCalibrationProfile=", v, outsSx(outs, p)))
		c07stats["flat history json"]++
	}
}

func genC07(tier string, rng *Rng) {
	thorough := tier == "thorough"
	var inPaths, outPaths []string
	stringPaths((&rwp.InboundMessage{}).ProtoReflect().Descriptor(), "", 0, &inPaths)
	stringPaths((&rwp.OutboundMessage{}).ProtoReflect().Descriptor(), "", 0, &outPaths)
	meta(map[string]interface{}{"kind": "C07 string fields reached", "inbound": inPaths, "outbound": outPaths})
	values := brokenStrings(rng, thorough)
	// every string field, one at a time
	for _, v := range values {
		for _, p := range inPaths {
			fieldCase("in", p, v)
		}
		for _, p := range outPaths {
			fieldCase("out", p, v)
		}
	}
	// random combinations of fields in one message
	nc := 400
	if thorough {
		nc = 8000
	}
	for i := 0; i < nc; i++ {
		im := &rwp.InboundMessage{}
		om := &rwp.OutboundMessage{}
		for k := 1 + rng.Intn(5); k > 0; k-- {
			setPath(im.ProtoReflect(), inPaths[rng.Intn(len(inPaths))], values[rng.Intn(len(values))])
			setPath(om.ProtoReflect(), outPaths[rng.Intn(len(outPaths))], values[rng.Intn(len(values))])
		}
		if len(im.States) > 0 && im.States[0].HWCText != nil {
			im.States[0].HWCText.Formatting = rwp.HWCText_FormattingE(rng.Pick([]int{0, 1, 7, 10}))
			im.States[0].HWCText.TextStyling = &rwp.HWCText_TextStyle{}
		}
		ib, _ := proto.Marshal(im)
		ob, _ := proto.Marshal(om)
		o1, p1 := encodeIn(im)
		emit(L(Sym("lines"), Sym("in"), outsSx(o1, p1), ib))
		o2, p2 := encodeOut(om)
		emit(L(Sym("lines"), Sym("out"), outsSx(o2, p2), ob))
		c07stats["random field combinations"] += 2
	}
	flatHistories(rng, thorough)
	svgCases(rng, thorough)
	longLineCases(rng)
	// strings.TrimSpace model
	for i := 0; i < 2000; i++ {
		var t strings.Builder
		for k := rng.Intn(4); k > 0; k-- {
			t.WriteString(spaces[rng.Intn(len(spaces))])
		}
		for k := rng.Intn(4); k > 0; k-- {
			t.WriteString([]string{"a", "é", "\xff", "\x80", " ", "€", "\xf0\x9f\x98\x80", "\xe2", "\xc2"}[rng.Intn(9)])
		}
		for k := rng.Intn(4); k > 0; k-- {
			t.WriteString(spaces[rng.Intn(len(spaces))])
		}
		emit(L(Sym("trim"), t.String(), strings.TrimSpace(t.String())))
	}
	meta(map[string]interface{}{"kind": "C07 case counts by generator", "counts": c07stats})
}

func replayC07(line string) {
	n := parseSexp(line)
	if n == nil || !n.IsList || len(n.Kids) < 3 {
		return
	}
	switch n.Kids[0].Atom {
	case "field":
		if len(n.Kids) >= 4 {
			fieldCaseOnly(n.Kids[1].Atom, string(n.Kids[2].Bytes()), string(n.Kids[3].Bytes()), "")
		}
	case "flat":
		if len(n.Kids) >= 5 {
			side, prefix, value := n.Kids[2].Atom, string(n.Kids[3].Bytes()), string(n.Kids[4].Bytes())
			fl := flatOut
			if side == "in" {
				fl = flatIn
			}
			for path, kp := range fl {
				if kp[1] == prefix {
					fieldCaseOnly(side, path, value, n.Kids[1].Atom+" "+prefix)
				}
			}
		}
	case "lines":
		if len(n.Kids) >= 4 {
			if n.Kids[1].Atom == "in" {
				im := &rwp.InboundMessage{}
				if proto.Unmarshal(n.Kids[3].Bytes(), im) == nil {
					o, p := encodeIn(im)
					emit(L(Sym("lines"), Sym("in"), outsSx(o, p), n.Kids[3].Bytes()))
				}
			} else {
				om := &rwp.OutboundMessage{}
				if proto.Unmarshal(n.Kids[3].Bytes(), om) == nil {
					o, p := encodeOut(om)
					emit(L(Sym("lines"), Sym("out"), outsSx(o, p), n.Kids[3].Bytes()))
				}
			}
		}
	case "trim":
		emit(L(Sym("trim"), n.Kids[1].Bytes(), strings.TrimSpace(string(n.Kids[1].Bytes()))))
	}
}

// re-run one field case; flat != "" re-emits it as the flat case "kind prefix"
func fieldCaseOnly(side, path, value, flat string) {
	var outs []string
	var p bool
	if side == "in" {
		msg := &rwp.InboundMessage{}
		setPath(msg.ProtoReflect(), path, value)
		outs, p = encodeIn(msg)
	} else {
		msg := &rwp.OutboundMessage{}
		setPath(msg.ProtoReflect(), path, value)
		outs, p = encodeOut(msg)
	}
	if flat == "" {
		emit(L(Sym("field"), Sym(side), path, value, outsSx(outs, p)))
		return
	}
	kp := strings.SplitN(flat, " ", 2)
	emit(L(Sym("flat"), Sym(kp[0]), Sym(side), kp[1], value, outsSx(outs, p)))
	_ = fmt.Sprint
}
