package main

// C05: chunked graphics.  Runs the real encoder / batch decoder / streaming reader on
// histories of lines under the three feeding disciplines and prints, per line fed, what was
// newly delivered and which earlier delivered objects read differently afterwards.

import (
	"bytes"
	"encoding/base64"
	"encoding/json"
	"fmt"
	"io"
	"strconv"
	"strings"
	"sync"

	rwl "github.com/SKAARHOJ/rawpanel-lib"
	rwp "github.com/SKAARHOJ/rawpanel-lib/ibeam_rawpanel"
	log "github.com/s00500/env_logger"
	"github.com/sirupsen/logrus"
)

func init() {
	props["C05"] = genC05
	replays["C05"] = replayC05
	// the library logs rejected chunks on STDOUT through env_logger; silence it
	l := logrus.New()
	l.SetOutput(io.Discard)
	l.SetLevel(logrus.PanicLevel)
	log.ConfigureAllLoggers(l, "")
}

type deliv struct {
	ids  []uint32
	typ  int
	w, h uint32
	xy   bool
	x, y uint32
	data []byte
}

func (d deliv) sx() []Sx {
	var ids []Sx
	for _, i := range d.ids {
		ids = append(ids, Sx(i))
	}
	if ids == nil {
		ids = []Sx{}
	}
	return L(ids, d.typ, d.w, d.h, d.xy, d.x, d.y, d.data)
}

func (d deliv) eq(o deliv) bool {
	if len(d.ids) != len(o.ids) || d.typ != o.typ || d.w != o.w || d.h != o.h || d.xy != o.xy || d.x != o.x || d.y != o.y || !bytes.Equal(d.data, o.data) {
		return false
	}
	for i := range d.ids {
		if d.ids[i] != o.ids[i] {
			return false
		}
	}
	return true
}

// every graphics image held by the messages, re-read NOW (deep copy of what the objects say)
func extract(msgs []*rwp.InboundMessage) []deliv {
	var res []deliv
	for _, m := range msgs {
		if m == nil {
			continue
		}
		for _, st := range m.States {
			if st != nil && st.HWCGfx != nil {
				g := st.HWCGfx
				res = append(res, deliv{append([]uint32{}, st.HWCIDs...), int(g.ImageType), g.W, g.H, g.XYoffset, g.X, g.Y, append([]byte{}, g.ImageData...)})
			}
		}
	}
	return res
}

// observe feeds the lines under one discipline; returns the STEP list (or a panic marker)
func observe(disc string, lines []string) []Sx { return observeWith(disc, lines, nil) }

// observeWith: after every step of the history a SECOND reader object parses the next companion
// line and a separate batch call decodes the companion prefix (package-level state shared between
// reader objects or between calls would show in the main history's deliveries)
func observeWith(disc string, lines []string, companion []string) []Sx {
	compReader := &rwl.ASCIIreader{}
	steps := []Sx{}
	var prev []deliv
	var held []*rwp.InboundMessage
	reader := &rwl.ASCIIreader{}
	var state []byte
	for k := range lines {
		var cur []deliv
		panicked := false
		func() {
			defer func() {
				if r := recover(); r != nil {
					panicked = true
				}
			}()
			switch disc {
			case "batch":
				cur = extract(rwl.RawPanelASCIIstringsToInboundMessages(lines[:k+1]))
			case "stream":
				held = append(held, reader.Parse(lines[k])...)
				cur = extract(held)
			case "ser": // rawpanel-lib-c/main.go: state marshalled and passed back in for every line
				var rd rwl.ASCIIreader
				if state != nil {
					json.Unmarshal(state, &rd)
				}
				held = append(held, rd.Parse(lines[k])...)
				state, _ = json.Marshal(rd)
				cur = extract(held)
			}
		}()
		if len(companion) > 0 {
			func() {
				defer func() { recover() }()
				c := k % len(companion)
				compReader.Parse(companion[c])
				rwl.RawPanelASCIIstringsToInboundMessages(companion[:c+1])
			}()
		}
		if panicked {
			steps = append(steps, Sx(Sym("panic")))
			continue
		}
		news := []Sx{}
		changes := []Sx{}
		for j := range prev {
			if j >= len(cur) {
				changes = append(changes, Sx(L(j, Sym("gone"))))
			} else if !cur[j].eq(prev[j]) {
				changes = append(changes, Sx(L(j, cur[j].sx())))
			}
		}
		for j := len(prev); j < len(cur); j++ {
			news = append(news, Sx(cur[j].sx()))
		}
		steps = append(steps, Sx(L(news, changes)))
		prev = cur
	}
	return steps
}

func linesSx(lines []string) []Sx {
	r := []Sx{}
	for _, l := range lines {
		r = append(r, Sx(L(l)))
	}
	return r
}

var c05mu sync.Mutex
var c05stats = map[string]int{}

func sxString(v Sx) string {
	var b strings.Builder
	sx(&b, v)
	b.WriteString("\n")
	return b.String()
}

func histCase(disc string, lines []string) string {
	return sxString(L(Sym("hist"), Sym(disc), linesSx(lines), observe(disc, lines)))
}

var discs = []string{"batch", "stream", "ser"}

// one history under the three disciplines in one case line
func hist3Case(lines []string) string {
	return sxString(L(Sym("hist3"), linesSx(lines), observe("batch", lines), observe("stream", lines), observe("ser", lines)))
}

func hist3cCase(lines, companion []string) string {
	return sxString(L(Sym("hist3c"), linesSx(lines), linesSx(companion), observeWith("batch", lines, companion), observeWith("stream", lines, companion), observeWith("ser", lines, companion)))
}

// ---------------------------------------------------------------- alphabet
type letter struct {
	pass   string // non-empty: pass-through line
	key    int    // 0..3: target x format
	idx    int
	simple bool // index 0 without header
}

var keyTargets = []string{"1", "2,3", "1", "2,3"}
var keyCmds = []string{"HWCg#", "HWCg#", "HWCgRGB#", "HWCgRGB#"}

func (l letter) line(N, li, pos int) string {
	if l.pass != "" {
		return l.pass
	}
	hdr := ""
	if l.idx == 0 && !l.simple {
		hdr = fmt.Sprintf("/%d,8x8", N)
	}
	payload := []byte{byte(li), byte(16*pos + l.idx), 0x55}[:1+(li+pos)%3]
	return fmt.Sprintf("%s%s=%d%s:%s", keyCmds[l.key], keyTargets[l.key], l.idx, hdr, base64.StdEncoding.EncodeToString(payload))
}

var minimalAlphabet = false

func alphabet(N int, reduced bool) []letter {
	var a []letter
	if minimalAlphabet {
		a = append(a, letter{key: 0, idx: 0})
		for i := 1; i <= N+1; i++ {
			a = append(a, letter{key: 0, idx: i})
		}
		return append(a, letter{key: 1, idx: 0}, letter{key: 1, idx: 1}, letter{pass: "ping"})
	}
	for key := 0; key < 4; key++ {
		if reduced && key == 3 {
			continue
		}
		if reduced && key > 0 {
			a = append(a, letter{key: key, idx: 0}, letter{key: key, idx: 1})
			continue
		}
		a = append(a, letter{key: key, idx: 0}, letter{key: key, idx: 0, simple: true})
		for i := 1; i <= N+1; i++ {
			a = append(a, letter{key: key, idx: i})
		}
	}
	a = append(a, letter{pass: "ping"})
	if !reduced {
		a = append(a, letter{pass: "HWC#1=4"})
	}
	return a
}

// all histories of length exactly L over the alphabet (each contains all its prefixes as steps)
func exhaustive(N, L int, reduced bool) {
	a := alphabet(N, reduced)
	total := 1
	for i := 0; i < L; i++ {
		total *= len(a)
	}
	const W = 16
	var wg sync.WaitGroup
	for w := 0; w < W; w++ {
		wg.Add(1)
		go func(w int) {
			defer wg.Done()
			var buf strings.Builder
			lines := make([]string, L)
			for h := w; h < total; h += W {
				x := h
				for p := 0; p < L; p++ {
					li := x % len(a)
					x /= len(a)
					lines[p] = a[li].line(N, li, p)
				}
				buf.WriteString(hist3Case(lines))
				if buf.Len() > 1<<20 {
					c05mu.Lock()
					out.WriteString(buf.String())
					c05mu.Unlock()
					buf.Reset()
				}
			}
			c05mu.Lock()
			out.WriteString(buf.String())
			c05mu.Unlock()
		}(w)
	}
	wg.Wait()
	c05stats[fmt.Sprintf("exhaustive N=%d len=%d alphabet=%d (x3 disciplines)", N, L, len(a))] += total
}

// ---------------------------------------------------------------- clean runs
func cleanCase(rng *Rng, n int, typ int, xy bool, nids int, interleave int) {
	g := &rwp.HWCGfx{ImageType: rwp.HWCGfx_ImageTypeE(typ), W: uint32(rng.Pick([]int{0, 1, 8, 64, 128, 65535, 1 << 31, 1<<32 - 1})), H: uint32(rng.Intn(300)),
		XYoffset: xy, ImageData: rng.Bytes(n)}
	// image CONTENT classes (seed C05-11: trailing all-zero lines not sent): all zero, a zero tail of one or
	// several whole lines, a zero head, a zero line in the middle, all 0xFF, one repeated byte
	switch n % 9 {
	case 1:
		for i := range g.ImageData {
			g.ImageData[i] = 0
		}
	case 2:
		for i := n / 3; i < n; i++ {
			g.ImageData[i] = 0
		}
	case 3:
		for i := 0; i < n-n/4; i++ {
			g.ImageData[i] = 0
		}
	case 4:
		for i := 170; i < 340 && i < n; i++ {
			g.ImageData[i] = 0
		}
	case 5:
		for i := range g.ImageData {
			g.ImageData[i] = 0xFF
		}
	case 6:
		for i := maxInt(0, n-171); i < n; i++ {
			g.ImageData[i] = 0
		}
	}
	if xy && n%4 == 1 { // an offset of exactly (0,0) is an offset (top-left corner), not "no offset"
		g.X, g.Y = 0, 0
	}
	if (xy && n%4 != 1) || (!xy && rng.Intn(4) == 0) { // X/Y set although XYoffset is off: not transmitted
		g.X, g.Y = uint32(rng.Intn(1000)), uint32(rng.Pick([]int{0, 5, 1<<32 - 1}))
	}
	ids := []uint32{}
	for i := 0; i < nids; i++ {
		ids = append(ids, uint32(rng.Pick([]int{0, 1, 7, 42, 255, 4000000000}))+uint32(i))
	}
	st := &rwp.HWCState{HWCIDs: ids, HWCGfx: g}
	if interleave == 1 { // the encoder itself interleaves other lines between the ids' runs
		st.HWCMode = &rwp.HWCMode{State: 4}
		st.PublishRawADCValues = &rwp.PublishRawADCValues{Enabled: true}
	}
	var lines []string
	func() {
		defer func() { recover() }()
		if n%5 == 2 {
			// the image travels in ONE message behind another state with a DIFFERENT image (other length,
			// format, size) for another target; that decoy's lines are taken out again - what is left must
			// be the clean run of this image (seed C05-9: encoded parts cached per message)
			const decoyID = 3999999999
			decoy := &rwp.HWCState{HWCIDs: []uint32{decoyID}, HWCGfx: &rwp.HWCGfx{ImageType: rwp.HWCGfx_ImageTypeE((typ + 1) % 3), W: 16, H: 3, ImageData: rng.Bytes(1 + (n*7)%400)}}
			all := rwl.InboundMessagesToRawPanelASCIIstrings([]*rwp.InboundMessage{{States: []*rwp.HWCState{decoy, st}}})
			for _, l := range all {
				if !strings.Contains(l, "#"+strconv.Itoa(decoyID)+"=") {
					lines = append(lines, l)
				}
			}
			c05stats["clean run behind another image in the same message"] += 3
			return
		}
		lines = rwl.InboundMessagesToRawPanelASCIIstrings([]*rwp.InboundMessage{{States: []*rwp.HWCState{st}}})
	}()
	if interleave == 2 { // unrelated lines inserted anywhere
		var l2 []string
		for _, l := range lines {
			for rng.Intn(3) == 0 {
				l2 = append(l2, []string{"ping", "HWC#5=1", "HeartBeatTimer=3000", "", "HWCt#4=1|2|3", "list"}[rng.Intn(6)])
			}
			l2 = append(l2, l)
		}
		lines = append(l2, "ack")
	}
	var idsx []Sx
	for _, i := range ids {
		idsx = append(idsx, Sx(i))
	}
	for _, d := range discs {
		emit(L(Sym("clean"), Sym(d), L(typ, g.W, g.H, g.XYoffset, g.X, g.Y, g.ImageData), idsx, linesSx(lines), observe(d, lines)))
	}
	// the same clean run after an ABANDONED transfer (first parts only) for another target, the same
	// target in another format, or a header-less part 0 (seed C05-10: a reader that ignores a part 0
	// for another target while a transfer is open stays parked on the abandoned one)
	if interleave != 2 && n > 0 && n%7 == 3 {
		other := uint32(4000000123)
		prefixes := [][]string{
			{fmt.Sprintf("HWCg#%d=0/2,64x48:QUFB", other), fmt.Sprintf("HWCg#%d=1:Q0ND", other)},
			{fmt.Sprintf("HWCgRGB#%d=0/1,8x8:QUFB", other)},
			{fmt.Sprintf("HWCg#%d=0:QUFB", other), fmt.Sprintf("HWCg#%d=1:QUFB", other)},
			{fmt.Sprintf("HWCgGray#%d,%d=0/3,8x8,1,1:QUFB", ids[0], other)},
		}
		pre := prefixes[(n/7)%len(prefixes)]
		all := append(append([]string{}, pre...), lines...)
		for _, d := range discs {
			emit(L(Sym("cleanp"), Sym(d), L(typ, g.W, g.H, g.XYoffset, g.X, g.Y, g.ImageData), idsx, linesSx(pre), linesSx(lines), observe(d, all)))
		}
		c05stats["clean after an abandoned transfer"] += 3
	}
	c05stats[fmt.Sprintf("clean len%%170=%s interleave=%d", map[bool]string{true: "0", false: "other"}[n%170 == 0], interleave)] += 3
}

// ---------------------------------------------------------------- random near-valid histories
func chunkLine(cmd, target string, idx int, hdr string, payload []byte) string {
	return fmt.Sprintf("%s%s=%d%s:%s", cmd, target, idx, hdr, base64.StdEncoding.EncodeToString(payload))
}

func randomHistory(rng *Rng, L int, dirty bool) []string {
	cmds := []string{"HWCg#", "HWCgRGB#", "HWCgGray#"}
	targets := []string{"1", "2,3", "40", "1,2,3,4", "01"}
	var lines []string
	cmd, tgt, next, max := cmds[0], targets[0], 0, 0
	for len(lines) < L {
		r := rng.Intn(100)
		switch {
		case next == 0 || r < 8: // (re)start a transfer
			cmd, tgt = cmds[rng.Intn(3)], targets[rng.Intn(len(targets))]
			max = rng.Intn(5)
			hdr := fmt.Sprintf("/%d,%dx%d", max, rng.Intn(200), rng.Intn(70))
			if rng.Intn(3) == 0 {
				hdr += fmt.Sprintf(",%d,%d", rng.Intn(50), rng.Intn(50))
			}
			if rng.Intn(6) == 0 {
				hdr, max = "", 2
			}
			lines = append(lines, chunkLine(cmd, tgt, 0, hdr, rng.Bytes(rng.Intn(8))))
			next = 1
			if max == 0 {
				next = 0
			}
		case r < 70: // the expected chunk
			lines = append(lines, chunkLine(cmd, tgt, next, "", rng.Bytes(rng.Intn(8))))
			if next == max {
				next = 0
				if rng.Intn(3) == 0 { // stray chunks after completion
					next = max + 1
				}
			} else {
				next++
			}
		case r < 76: // duplicate of the previous index
			lines = append(lines, chunkLine(cmd, tgt, next-1, "", rng.Bytes(rng.Intn(8))))
		case r < 82: // skip one
			lines = append(lines, chunkLine(cmd, tgt, next+1, "", rng.Bytes(rng.Intn(8))))
		case r < 87: // other target / other format, same index
			if rng.Bool() {
				lines = append(lines, chunkLine(cmd, targets[rng.Intn(len(targets))], next, "", rng.Bytes(3)))
			} else {
				lines = append(lines, chunkLine(cmds[rng.Intn(3)], tgt, next, "", rng.Bytes(3)))
			}
		case r < 90: // a header on a non-zero chunk
			lines = append(lines, chunkLine(cmd, tgt, next, "/1,8x8", rng.Bytes(3)))
		default:
			lines = append(lines, []string{"ping", "", "HWC#1=4", "nack", "HWCt#1=0|7"}[rng.Intn(5)])
		}
		if dirty && rng.Intn(4) == 0 {
			lines[len(lines)-1] = mutate(rng, lines[len(lines)-1])
		}
	}
	return lines
}

var spaces = []string{" ", "\t", "\r", "\n", "\v", "\f", "\u0085", "\u00a0", "\u1680", "\u2000", "\u200a", "\u2028", "\u2029", "\u202f", "\u205f", "\u3000", "\xa0", "\x85", "\xe2\x80", "\u200b", "\ufeff"}

func mutate(rng *Rng, s string) string {
	b := []byte(s)
	switch rng.Intn(12) {
	case 0: // white space around (the streaming reader trims, the batch decoder does not)
		return spaces[rng.Intn(len(spaces))] + s + spaces[rng.Intn(len(spaces))]
	case 1:
		if len(b) > 0 {
			b[rng.Intn(len(b))] = byte(rng.U64())
		}
	case 2:
		if len(b) > 0 {
			b = b[:rng.Intn(len(b))]
		}
	case 3: // CR / LF / junk inside the payload
		i := strings.IndexByte(s, ':')
		if i >= 0 {
			p := i + 1 + rng.Intn(len(s)-i)
			ins := []string{"\r", "\n", "=", "==", "!", "\xff", "é", " ", "\xe2\x80\xa8"}[rng.Intn(9)]
			return s[:p] + ins + s[p:]
		}
	case 4: // numbers: leading zeros, huge
		return strings.Replace(s, "=", "="+[]string{"0", "00", "99999999999999999999", "9223372036854775807", "4294967296"}[rng.Intn(5)], 1)
	case 5:
		return strings.Replace(s, "/", "/"+[]string{"0", "00", "99999999999999999999", "4294967297"}[rng.Intn(4)], 1)
	case 6:
		return strings.Replace(s, "x", []string{"X", "x0", "x4294967297", "xx", ""}[rng.Intn(5)], 1)
	case 7:
		return strings.Replace(s, "#", []string{"#,", "#0", "##", "#1,,", " #"}[rng.Intn(5)], 1)
	case 8:
		return strings.Replace(s, "HWCg", []string{"HWCG", "hwcg", "HWC", "HWCgRGB", "HWCgGray", "xHWCg"}[rng.Intn(6)], 1)
	case 9:
		return s + []string{"=", "==", "A", "\r", " ", "\x00", "\xc3"}[rng.Intn(7)]
	case 10:
		return strings.Replace(s, ":", []string{"::", "", ",1,2:", ",1:", "/1,2x3:"}[rng.Intn(5)], 1)
	default:
		if len(b) > 1 {
			i := rng.Intn(len(b) - 1)
			b[i], b[i+1] = b[i+1], b[i]
		}
	}
	return string(b)
}

// ---------------------------------------------------------------- library-model ties
func libCases(rng *Rng, n int) {
	emit(L(Sym("pat"), rwl.ASCIIreader_gfx.String()))
	b64chars := "ABCDEFGHIJKLMNOPQRSTUVWXYZabcdefghijklmnopqrstuvwxyz0123456789+/"
	for i := 0; i < n; i++ {
		// base64: valid encodings, then mutated
		raw := rng.Bytes(rng.Intn(12))
		enc := base64.StdEncoding.EncodeToString(raw)
		emit(L(Sym("b64e"), raw, enc))
		s := []byte(enc)
		for m := rng.Intn(4); m > 0 && len(s) > 0; m-- {
			p := rng.Intn(len(s) + 1)
			ins := []string{"=", "\r", "\n", "!", "A", "==", " ", "\xff", "-", "_"}[rng.Intn(10)]
			if rng.Bool() {
				s = append(s[:p:p], append([]byte(ins), s[p:]...)...)
			} else if p < len(s) {
				s = append(s[:p:p], s[p+1:]...)
			}
		}
		if rng.Intn(5) == 0 {
			s = s[:0]
			for k := rng.Intn(14); k > 0; k-- {
				s = append(s, (b64chars + "===\r\n!")[rng.Intn(70)])
			}
		}
		dec, _ := base64.StdEncoding.DecodeString(string(s))
		emit(L(Sym("b64d"), s, dec))
		c05stats["lib b64"] += 2
		// TrimSpace
		var t strings.Builder
		for k := rng.Intn(4); k > 0; k-- {
			t.WriteString(spaces[rng.Intn(len(spaces))])
		}
		for k := rng.Intn(4); k > 0; k-- {
			t.WriteString([]string{"a", "é", "\xff", "\x80", " ", "€", "\xf0\x9f\x98\x80", "\xe2", "\xc2"}[rng.Intn(9)])
		}
		for k := rng.Intn(4); k > 0; k-- {
			t.WriteString(spaces[rng.Intn(len(spaces))])
		}
		ts := t.String()
		if rng.Intn(6) == 0 {
			ts = string(rng.Bytes(rng.Intn(6))) + ts
		}
		if rng.Intn(6) == 0 {
			ts = ts + string(rng.Bytes(rng.Intn(6)))
		}
		emit(L(Sym("trim"), ts, strings.TrimSpace(ts)))
		c05stats["lib trim"]++
		// the regex
		line := randomHistory(rng, 1, false)[0]
		for m := rng.Intn(3); m > 0; m-- {
			line = mutate(rng, line)
		}
		if sub := rwl.ASCIIreader_gfx.FindStringSubmatch(line); sub != nil {
			var subs []Sx
			for _, x := range sub[1:] {
				subs = append(subs, Sx(x))
			}
			emit(L(Sym("rx"), line, subs))
		} else {
			emit(L(Sym("rx"), line, Sym("nomatch")))
		}
		c05stats["lib regex"]++
		// encoding/json image of the reader
		rd := rwl.ASCIIreader{HWCGfx_count: rng.Range(-2, 5), HWCGfx_max: rng.Pick([]int{0, 1, 2, 7, 1 << 40, 1<<63 - 1}),
			HWCGfx_HWClist: []string{"", "1", "2,3", "\xff"}[rng.Intn(4)], HWCGfx_ImageType: []string{"", "HWCg#", "HWCgRGB#", "x\x80y", "<&> "}[rng.Intn(5)]}
		for k := rng.Intn(3); k > 0; k-- {
			rd.HWCGfx = append(rd.HWCGfx, mutate(rng, randomHistory(rng, 1, false)[0]))
		}
		js, _ := json.Marshal(rd)
		var rd2 rwl.ASCIIreader
		json.Unmarshal(js, &rd2)
		emit(L(Sym("json"), rd.HWCGfx_count, rd.HWCGfx_ImageType, linesSx(rd.HWCGfx), rd.HWCGfx_max, rd.HWCGfx_HWClist,
			rd2.HWCGfx_count, rd2.HWCGfx_ImageType, linesSx(rd2.HWCGfx), rd2.HWCGfx_max, rd2.HWCGfx_HWClist))
		c05stats["lib json"]++
	}
}

func genC05(tier string, rng *Rng) {
	thorough := tier == "thorough"
	// F1-F3 and relatives first
	c0 := func(n int) string { return fmt.Sprintf("HWCg#1=0/%d,8x8:QUFB", n) }
	for _, h := range [][]string{
		{c0(2), "HWCg#1=2:Q0ND", "HWCg#1=2:RERE"},
		{c0(1), "HWCg#1=1:QkJC", "HWCg#1=2:Q0ND"},
		{c0(1), "HWCg#1=1:QkJC", "HWCg#1=1:Q0ND", "HWCg#1=1:RERE"},
		{c0(2), "HWCg#1=1:QkJC", "HWCg#1=1:QkJC", "HWCg#1=2:Q0ND"},
		{"HWCg#1=1:QkJC", c0(0), "HWCg#1=1:QkJC"},
	} {
		for _, d := range discs {
			out.WriteString(histCase(d, h))
		}
	}
	// (i) exhaustive small scopes
	for N := 0; N <= 2; N++ {
		if thorough {
			if N == 0 {
				exhaustive(N, 5, false)
			} else {
				exhaustive(N, 4, false)
			}
			if N < 2 {
				exhaustive(N, 6, true)
			} else {
				exhaustive(N, 5, true)
			}
		} else {
			if N < 2 {
				exhaustive(N, 4, false)
			} else {
				exhaustive(N, 3, false)
			}
			exhaustive(N, 5, true)
		}
	}
	if thorough {
		minimalAlphabet = true
		exhaustive(1, 7, true)
		minimalAlphabet = false
	}
	// (ii) clean runs: every image length 0..700
	for n := 0; n <= 700; n++ {
		cleanCase(rng, n, n%3, (n/3)%2 == 1, 1+(n/6)%3, (n/18)%3)
		if thorough {
			for v := 1; v < 6; v++ {
				cleanCase(rng, n, (n+v)%3, (n+v)%2 == 1, 1+(n/2+v)%3, v%3)
			}
		}
	}
	big := 60
	if thorough {
		big = 600
	}
	for i := 0; i < big; i++ {
		n := 700 + rng.Intn(5300)
		if i%4 == 0 {
			n = 170*(5+rng.Intn(30)) + rng.Range(-1, 1)
		}
		cleanCase(rng, n, rng.Intn(3), rng.Bool(), 1+rng.Intn(3), rng.Intn(3))
	}
	// (iii) random long near-valid histories, then a malformed stream
	nr := 3000
	if thorough {
		nr = 60000
	}
	for i := 0; i < nr; i++ {
		h := randomHistory(rng, 50, i%3 == 2)
		if i%4 == 1 { // with a companion reader / companion calls working on another history
			out.WriteString(hist3cCase(h[:25], randomHistory(rng, 12, false)))
			c05stats["random len 25 with a companion reader and companion batch calls (x3 disciplines)"]++
			continue
		}
		out.WriteString(hist3Case(h))
		c05stats[map[bool]string{false: "random near-valid len 50 (x3 disciplines)", true: "random with malformed lines len 50 (x3 disciplines)"}[i%3 == 2]]++
	}
	libCases(rng, nr)
	meta(map[string]interface{}{"kind": "C05 case counts by generator", "counts": c05stats})
}

func replayC05(line string) {
	n := parseSexp(line)
	if n == nil || !n.IsList || len(n.Kids) < 2 {
		return
	}
	getLines := func(k *Node) []string {
		var ls []string
		for _, x := range k.Kids {
			if x.IsList && len(x.Kids) == 1 {
				ls = append(ls, string(x.Kids[0].Bytes()))
			}
		}
		return ls
	}
	switch n.Kids[0].Atom {
	case "hist":
		if len(n.Kids) < 3 {
			return
		}
		out.WriteString(histCase(n.Kids[1].Atom, getLines(n.Kids[2])))
	case "hist3":
		out.WriteString(hist3Case(getLines(n.Kids[1])))
	case "cleanp":
		if len(n.Kids) >= 7 {
			pre, lines := getLines(n.Kids[5]), getLines(n.Kids[6])
			all := append(append([]string{}, pre...), lines...)
			emit(L(Sym("cleanp"), Sym(n.Kids[1].Atom), nodeSx(n.Kids[2]), nodeSx(n.Kids[3]), linesSx(pre), linesSx(lines), observe(n.Kids[1].Atom, all)))
		}
	case "hist3c":
		if len(n.Kids) >= 3 {
			out.WriteString(hist3cCase(getLines(n.Kids[1]), getLines(n.Kids[2])))
		}
	case "clean":
		if len(n.Kids) < 5 || len(n.Kids[2].Kids) != 7 {
			return
		}
		gk := n.Kids[2].Kids
		g := &rwp.HWCGfx{ImageType: rwp.HWCGfx_ImageTypeE(gk[0].Int()), W: uint32(gk[1].Int()), H: uint32(gk[2].Int()), XYoffset: gk[3].Bool(),
			X: uint32(gk[4].Int()), Y: uint32(gk[5].Int()), ImageData: gk[6].Bytes()}
		var ids []uint32
		var idsx []Sx
		for _, k := range n.Kids[3].Kids {
			ids = append(ids, uint32(k.Int()))
			idsx = append(idsx, Sx(uint32(k.Int())))
		}
		// re-run the ENCODER; its graphics lines replace the recorded ones (interleaved lines kept)
		var fresh []string
		func() {
			defer func() { recover() }()
			fresh = rwl.InboundMessagesToRawPanelASCIIstrings([]*rwp.InboundMessage{{States: []*rwp.HWCState{{HWCIDs: ids, HWCGfx: g}}}})
		}()
		lines := getLines(n.Kids[4])
		cnt := 0
		for _, l := range lines {
			if strings.HasPrefix(l, "HWCg") {
				cnt++
			}
		}
		if cnt == len(fresh) {
			k := 0
			for i, l := range lines {
				if strings.HasPrefix(l, "HWCg") {
					lines[i] = fresh[k]
					k++
				}
			}
		} else if cnt != 0 || len(lines) == 0 {
			lines = fresh
		}
		emit(L(Sym("clean"), Sym(n.Kids[1].Atom), L(int(g.ImageType), g.W, g.H, g.XYoffset, g.X, g.Y, g.ImageData), idsx, linesSx(lines), observe(n.Kids[1].Atom, lines)))
	default: // library ties: re-run the library call
		switch n.Kids[0].Atom {
		case "b64d":
			dec, _ := base64.StdEncoding.DecodeString(string(n.Kids[1].Bytes()))
			emit(L(Sym("b64d"), n.Kids[1].Bytes(), dec))
		case "b64e":
			emit(L(Sym("b64e"), n.Kids[1].Bytes(), base64.StdEncoding.EncodeToString(n.Kids[1].Bytes())))
		case "trim":
			emit(L(Sym("trim"), n.Kids[1].Bytes(), strings.TrimSpace(string(n.Kids[1].Bytes()))))
		default:
			out.WriteString(line + "\n")
		}
	}
}

// nodeSx turns a parsed node back into an s-expression value (atoms verbatim)
func nodeSx(n *Node) Sx {
	if n == nil {
		return L()
	}
	if !n.IsList {
		return Sym(n.Atom)
	}
	l := []Sx{}
	for _, k := range n.Kids {
		l = append(l, nodeSx(k))
	}
	return l
}

func maxInt(a, b int) int {
	if a > b {
		return a
	}
	return b
}
