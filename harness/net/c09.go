package main

import (
	"fmt"
	"google.golang.org/protobuf/proto"
	"strings"

	rwp "github.com/SKAARHOJ/rawpanel-lib/ibeam_rawpanel"
)

func init() {
	props["C09"] = genC09
	replays["C09"] = replayScenario
}

// an inbound message whose content is unique for (id): HWC ids carry the tag
func randInMsg(rng *Rng, id uint32, big bool) *rwp.InboundMessage {
	if big { // ~60 kB graphics state
		data := rng.Bytes(176 * 170 * 2)
		return &rwp.InboundMessage{States: []*rwp.HWCState{{HWCIDs: []uint32{id}, HWCGfx: &rwp.HWCGfx{ImageType: rwp.HWCGfx_RGB16bit, W: 176, H: 170, ImageData: data}}}}
	}
	switch rng.Intn(7) {
	case 0:
		return &rwp.InboundMessage{States: []*rwp.HWCState{{HWCIDs: []uint32{id}, HWCMode: &rwp.HWCMode{State: rwp.HWCMode_StateE(rng.Range(0, 5)), Output: rng.Bool(), BlinkPattern: uint32(rng.Range(0, 15))}}}}
	case 1:
		return &rwp.InboundMessage{States: []*rwp.HWCState{{HWCIDs: []uint32{id, id + 1}, HWCColor: &rwp.HWCColor{ColorIndex: &rwp.ColorIndex{Index: rwp.ColorIndex_Colors(rng.Range(0, 16))}}}}}
	case 2:
		return &rwp.InboundMessage{States: []*rwp.HWCState{{HWCIDs: []uint32{id}, HWCText: &rwp.HWCText{IntegerValue: int32(rng.Range(-999, 999)), Formatting: rwp.HWCText_FormattingE(rng.Range(0, 8)), Title: fmt.Sprintf("T%d", id), Textline1: "abc", SolidHeaderBar: rng.Bool()}}}}
	case 3:
		return &rwp.InboundMessage{States: []*rwp.HWCState{{HWCIDs: []uint32{id}, HWCExtended: &rwp.HWCExtended{Interpretation: rwp.HWCExtended_InterpretationE(rng.Range(0, 5)), Value: uint32(rng.Range(0, 1000))}}}}
	case 4:
		return &rwp.InboundMessage{States: []*rwp.HWCState{{HWCIDs: []uint32{id}, HWCMode: &rwp.HWCMode{State: 4}, HWCColor: &rwp.HWCColor{ColorRGB: &rwp.ColorRGB{Red: 255, Green: uint32(rng.Range(0, 255)), Blue: 0}}}}}
	case 5: // small mono image
		w, h := 64, rng.Range(8, 32)
		return &rwp.InboundMessage{States: []*rwp.HWCState{{HWCIDs: []uint32{id}, HWCGfx: &rwp.HWCGfx{ImageType: rwp.HWCGfx_MONO, W: uint32(w), H: uint32(h), ImageData: rng.Bytes(w / 8 * h)}}}}
	}
	return &rwp.InboundMessage{States: []*rwp.HWCState{{HWCIDs: []uint32{id}, HWCMode: &rwp.HWCMode{State: 2}}}, Command: &rwp.Command{PanelBrightness: &rwp.Brightness{OLEDs: uint32(id % 9), LEDs: uint32(rng.Range(0, 8))}}}
}

func genC09(tier string, rng *Rng) {
	if runInChild() {
		return
	}
	findDriver("C09")
	var scs []*Scenario
	hist := map[string]int{}
	rounds := 5
	if tier == "thorough" {
		rounds = 40
	}
	for r := 0; r < rounds; r++ {
		for _, asc := range []bool{false, true} {
			for _, nsub := range []int{1, 4} {
				// the panel: negotiation reply, then a flood of events while submissions are written
				cs := ConnScript{End: "none"}
				nflood := rng.Range(40, 160)
				if asc {
					cs.Items = []Item{{Kind: "ln", Data: Lit([]byte("RDY"))}}
					cs.Segs = []SegCut{{0, 4}}
					for i := 0; i < nflood; i++ {
						it := Item{Kind: "ln", Data: Lit([]byte(fmt.Sprintf("HWC#%d=%s", 1+i%40, []string{"Down", "Up"}[i%2])))}
						cs.Items = append(cs.Items, it)
						cs.Segs = append(cs.Segs, SegCut{60 + 5*i, len(it.Encode())})
					}
				} else {
					cs.Items = []Item{ackItem()}
					cs.Segs = []SegCut{{0, 6}}
					for i := 0; i < nflood; i++ {
						it := Item{Kind: "f", Data: Lit(evMsg(uint32(1+i%40), i%2 == 0))}
						cs.Items = append(cs.Items, it)
						cs.Segs = append(cs.Segs, SegCut{60 + 5*i, len(it.Encode())})
					}
				}
				sc := &Scenario{Entry: "client", Conns: []ConnScript{cs}, SubStart: 100}
				nbig := 0
				for k := 0; k < nsub; k++ {
					var list []Submission
					n := rng.Range(1, 6)
					for j := 0; j < n; j++ {
						var sb Submission
						cnt := 0
						switch rng.Intn(6) {
						case 0: // empty list
						case 1:
							cnt = rng.Range(10, 20)
						default:
							cnt = rng.Range(1, 5)
						}
						for m := 0; m < cnt; m++ {
							big := nbig < 2 && rng.Intn(12) == 0
							if big {
								nbig++
							}
							sb.Msgs = append(sb.Msgs, randInMsg(rng, uint32(1000*(k+1)+60*j+2*m+1), big))
						}
						list = append(list, sb)
					}
					sc.Subs = append(sc.Subs, list)
				}
				if r == 0 { // one scenario per shape that certainly has large graphics states
					sc.Subs[0] = append(sc.Subs[0], Submission{Msgs: []*rwp.InboundMessage{randInMsg(rng, 7001, true), randInMsg(rng, 7003, false), randInMsg(rng, 7005, true)}})
				}
				mode := "bin"
				if asc {
					mode = "asc"
				}
				sc.ID = fmt.Sprintf("%s-%dsub-%d", mode, nsub, r)
				sc.Cancel = 60 + 5*nflood + 900
				scs = append(scs, sc)
				hist[fmt.Sprintf("%s-%dsub", mode, nsub)]++
			}
		}
	}
	// after a panel drop and the automatic reconnect: 24 single-message lists (and lists from 4
	// goroutines) submitted on the NEW connection must all arrive there, in order
	for _, asc := range []bool{false, true} {
		for _, nsub := range []int{1, 4} {
			first := ConnScript{Items: []Item{ackItem()}, Segs: []SegCut{{0, 6}}, End: "close", EndT: 250}
			second := goodConn(1, 2)
			redial := 1250
			if asc {
				first = ConnScript{Items: []Item{{Kind: "ln", Data: Lit([]byte("RDY"))}}, Segs: []SegCut{{0, 4}}, End: "close", EndT: 250}
				second = goodAscConn("HWC#1=Down", "HWC#1=Up")
				redial = 2250
			}
			sc := &Scenario{Entry: "client", Conns: []ConnScript{first, second}, SubStart: 100, SubConn: 1, Cancel: redial + 1300}
			for k := 0; k < nsub; k++ {
				var list []Submission
				for j := 0; j < 24/nsub; j++ {
					list = append(list, Submission{Msgs: []*rwp.InboundMessage{randInMsg(rng, uint32(1000*(k+1)+2*j+1), false)}})
				}
				sc.Subs = append(sc.Subs, list)
			}
			mode := "bin"
			if asc {
				mode = "asc"
			}
			sc.ID = fmt.Sprintf("%s-after-reconnect-%dsub", mode, nsub)
			scs = append(scs, sc)
			hist[mode+"-after-reconnect"]++
		}
	}
	// text fields with characters that are special to formatting functions, shells, JSON
	for _, asc := range []bool{false, true} {
		specials := []string{"Iris 50%", "%d items", "100%% %s", "%!|x", "a\\b\\n", "say \"hi\"", "it's", "Gr\u00fc\u00dfe \u00b0C", "%", "tab\there", "{json: [1,2]}", "$(x) `y`",
			"Iris: ", "ends in tab\t", "nbsp\u00a0", " both ", "  ", "cr\r", "x\u2003"}
		cs := goodConn(1)
		if asc {
			cs = goodAscConn("HWC#1=Down")
		}
		sc := &Scenario{Entry: "client", Conns: []ConnScript{cs}, SubStart: 100, Cancel: 1300}
		var list []Submission
		for i, sp := range specials {
			m := &rwp.InboundMessage{States: []*rwp.HWCState{{HWCIDs: []uint32{uint32(500 + i)}, HWCText: &rwp.HWCText{Title: sp, Textline1: sp + "!", Textline2: "x" + sp, Formatting: 7}}}}
			list = append(list, Submission{Msgs: []*rwp.InboundMessage{m}})
		}
		sc.Subs = [][]Submission{list}
		mode := "bin"
		if asc {
			mode = "asc"
		}
		sc.ID = mode + "-special-text"
		scs = append(scs, sc)
		hist[mode+"-special-text"]++
	}
	// messages with every combination of the four top-level fields present / empty (seeds C09-11: a
	// submission that is not empty but converts to no ASCII line wrote a lone line feed; C09-12: a
	// pre-encoded frame for "nothing but the flow message" forgot that Registers is a field too):
	// alone in a list, several in a list, next to ordinary messages, and lists that are empty
	for _, asc := range []bool{false, true} {
		cs := goodConn(1)
		if asc {
			cs = goodAscConn("HWC#1=Down")
		}
		sc := &Scenario{Entry: "client", Conns: []ConnScript{cs}, SubStart: 100, Cancel: 1700}
		var pool []*rwp.InboundMessage
		for mask := 0; mask < 48; mask++ {
			m := &rwp.InboundMessage{}
			switch mask & 3 {
			case 1:
				m.FlowMessage = rwp.InboundMessage_FlowMsg(1 + mask%3)
			case 2:
				m.FlowMessage = rwp.InboundMessage_FlowMsg(1 + (mask/4)%3)
			}
			switch (mask >> 2) & 3 {
			case 1:
				m.Command = &rwp.Command{}
			case 2:
				m.Command = &rwp.Command{SendPanelInfo: true}
			case 3:
				m.Command = &rwp.Command{PanelBrightness: &rwp.Brightness{OLEDs: 3, LEDs: 4}}
			}
			switch (mask >> 4) % 3 {
			case 1:
				m.States = []*rwp.HWCState{{HWCIDs: []uint32{uint32(600 + mask)}}}
			case 2:
				m.States = []*rwp.HWCState{{HWCIDs: []uint32{uint32(600 + mask)}, HWCMode: &rwp.HWCMode{State: 4}}}
			}
			pool = append(pool, m)
			// the same with registers (none of the ASCII forms carries them; a binary frame must)
			r := proto.Clone(m).(*rwp.InboundMessage)
			r.Registers = []*rwp.Register{{Reg: rwp.Register_RegisterE(mask % 3), Id: "A", Value: uint32(mask)}}
			pool = append(pool, r)
			if mask%8 == 0 {
				e := proto.Clone(m).(*rwp.InboundMessage)
				e.Registers = []*rwp.Register{}
				e.States = []*rwp.HWCState{}
				pool = append(pool, e)
			}
		}
		var list []Submission
		for i, m := range pool {
			list = append(list, Submission{Msgs: []*rwp.InboundMessage{m}})
			if i%5 == 0 {
				list = append(list, Submission{})
			}
			if i%7 == 0 && i+2 < len(pool) {
				list = append(list, Submission{Msgs: []*rwp.InboundMessage{pool[i+1], randInMsg(rng, uint32(800+i), false), pool[i+2], m}})
			}
		}
		sc.Subs = [][]Submission{list}
		mode := "bin"
		if asc {
			mode = "asc"
		}
		sc.ID = mode + "-field-presence"
		scs = append(scs, sc)
		hist[mode+"-field-presence"]++
	}
	// the application keeps ONE message object per thing it controls and edits it in place between
	// submissions (brightness 5 -> 7, a button ON -> DIMMED, "CAM 1" -> "CAM 2": same encoded size), each
	// submission made after the previous one has reached the panel (seed C09-14: frames cached by object
	// identity and size)
	for _, asc := range []bool{false, true} {
		cs := goodConn(1)
		if asc {
			cs = goodAscConn("HWC#1=Down")
		}
		sc := &Scenario{Entry: "client", Conns: []ConnScript{cs}, SubStart: 100, SameObjects: true, Alone: true}
		var list []Submission
		for k := 0; k < 8; k++ {
			a := &rwp.InboundMessage{Command: &rwp.Command{PanelBrightness: &rwp.Brightness{LEDs: uint32(1 + k%8), OLEDs: uint32(8 - k%8)}}}
			b := &rwp.InboundMessage{States: []*rwp.HWCState{{HWCIDs: []uint32{7}, HWCMode: &rwp.HWCMode{State: rwp.HWCMode_StateE(1 + k%5)}, HWCText: &rwp.HWCText{Title: fmt.Sprintf("CAM %d", 1+k%9), Formatting: 7}}}}
			switch k % 3 {
			case 0:
				list = append(list, Submission{Msgs: []*rwp.InboundMessage{a}, Delay: 150})
			case 1:
				list = append(list, Submission{Msgs: []*rwp.InboundMessage{a, b}, Delay: 150})
			default:
				list = append(list, Submission{Msgs: []*rwp.InboundMessage{b}, Delay: 150}, Submission{Msgs: []*rwp.InboundMessage{b}, Delay: 150})
			}
		}
		sc.Subs = [][]Submission{list}
		sc.Cancel = 100 + 150*len(list) + 900
		mode := "bin"
		if asc {
			mode = "asc"
		}
		sc.ID = mode + "-same-objects"
		scs = append(scs, sc)
		hist[mode+"-same-objects"]++
	}
	// the writer is BUSY (the panel pauses reading, small socket buffers, a 300 KiB state in flight) while
	// further lists queue up in a buffered channel, the LAST of them empty / nil, and nothing is submitted
	// afterwards: everything handed over must still reach the panel once it reads again (seed C09-15: a
	// buffered writer that flushes only when the channel is empty, and skips empty lists before that test)
	for _, asc := range []bool{false, true} {
		for _, tail := range []int{0, 1, 2} { // what follows the small list: nothing, an empty list, two empty lists
			cs := goodConn(1)
			if asc {
				cs = goodAscConn("HWC#1=Down")
			}
			big := &rwp.InboundMessage{States: []*rwp.HWCState{{HWCIDs: []uint32{77}, HWCGfx: &rwp.HWCGfx{ImageType: rwp.HWCGfx_RGB16bit, W: 400, H: 300, ImageData: rng.Bytes(120000)}}}}
			list := []Submission{{Msgs: []*rwp.InboundMessage{big}}, {Msgs: []*rwp.InboundMessage{randInMsg(rng, 611, false)}, Delay: 100}, {Msgs: []*rwp.InboundMessage{randInMsg(rng, 613, false), randInMsg(rng, 615, false)}, Delay: 20}}
			for k := 0; k < tail; k++ {
				list = append(list, Submission{Delay: 20})
			}
			sc := &Scenario{Entry: "client", Conns: []ConnScript{cs}, SubStart: 250, Subs: [][]Submission{list},
				ToPanelCap: 8, SmallBuffers: true, ReadPauseFrom: 200, ReadPauseTo: 1300, Cancel: 1300 + 5000} // (a 4 KiB window drains slowly: delayed ACKs)
			mode := "bin"
			if asc {
				mode = "asc"
			}
			sc.ID = fmt.Sprintf("%s-busy-writer-queue-%d", mode, tail)
			scs = append(scs, sc)
			hist[mode+"-busy-writer-queue"]++
		}
	}
	// the panel uses every flow word while the application submits: BSY / RDY / ping / ack / nack are
	// messages for the application, the writer does not act on them (seed C09-13: the writer waited for
	// RDY after a BSY)
	for _, asc := range []bool{false, true} {
		for _, words := range [][]int{{4}, {4, 5}, {5, 4, 1, 2, 3}} { // BSY; BSY RDY; RDY BSY ping ack nack
			cs := ConnScript{End: "none"}
			if asc {
				cs.Items = []Item{{Kind: "ln", Data: Lit([]byte("RDY"))}}
				cs.Segs = []SegCut{{0, 4}}
				for i, wd := range words {
					it := Item{Kind: "ln", Data: Lit([]byte(map[int]string{1: "ping", 2: "ack", 3: "nack", 4: "BSY", 5: "RDY"}[wd]))}
					cs.Items = append(cs.Items, it)
					cs.Segs = append(cs.Segs, SegCut{250 + 40*i, len(it.Encode())})
				}
			} else {
				cs.Items = []Item{ackItem()}
				cs.Segs = []SegCut{{0, 6}}
				for i, wd := range words {
					it := Item{Kind: "f", Data: Lit(mustMarshal(&rwp.OutboundMessage{FlowMessage: rwp.OutboundMessage_FlowMsg(wd)}))}
					cs.Items = append(cs.Items, it)
					cs.Segs = append(cs.Segs, SegCut{250 + 40*i, len(it.Encode())})
				}
			}
			sc := &Scenario{Entry: "client", Conns: []ConnScript{cs}, SubStart: 100}
			var list []Submission
			for j := 0; j < 8; j++ {
				list = append(list, Submission{Msgs: []*rwp.InboundMessage{randInMsg(rng, uint32(900+2*j), false)}, Delay: 100})
			}
			sc.Subs = [][]Submission{list}
			sc.Cancel = 100 + 100*8 + 900
			mode := "bin"
			if asc {
				mode = "asc"
			}
			sc.ID = fmt.Sprintf("%s-flow-words-%d", mode, len(words))
			scs = append(scs, sc)
			hist[mode+"-flow-words"]++
		}
	}
	// a slow consumer of msgsFromPanel: the panel sends an event, the application picks it up
	// only after 3 s; submissions made meanwhile (and after) must all reach the panel
	for _, asc := range []bool{false, true} {
		cs := ConnScript{End: "none"}
		if asc {
			cs.Items = []Item{{Kind: "ln", Data: Lit([]byte("RDY"))}, {Kind: "ln", Data: Lit([]byte("HWC#1=Down"))}, {Kind: "ln", Data: Lit([]byte("HWC#1=Up"))}}
			cs.Segs = []SegCut{{0, 4}, {60, 11}, {3300, 9}}
		} else {
			a, b := Item{Kind: "f", Data: Lit(evMsg(1, true))}, Item{Kind: "f", Data: Lit(evMsg(1, false))}
			cs.Items = []Item{ackItem(), a, b}
			cs.Segs = []SegCut{{0, 6}, {60, len(a.Encode())}, {3300, len(b.Encode())}}
		}
		sc := &Scenario{Entry: "client", Conns: []ConnScript{cs}, SubStart: 100, RecvFrom: 3000, Cancel: 4200}
		mk := func(id uint32, delay int) Submission {
			return Submission{Msgs: []*rwp.InboundMessage{randInMsg(rng, id, false), randInMsg(rng, id+2, false)}, Delay: delay}
		}
		sc.Subs = [][]Submission{{mk(9001, 0), mk(9011, 2400), mk(9021, 300), mk(9031, 600)}}
		mode := "bin"
		if asc {
			mode = "asc"
		}
		sc.ID = mode + "-slow-consumer"
		scs = append(scs, sc)
		hist[mode+"-slow-consumer"]++
	}
	// a BUFFERED msgsToPanel channel filled in a burst, the lists being windows of ONE caller array
	// with the later lists behind them (seed C09-7: a writer that batches queued lists by appending to
	// the caller's slice overwrites the lists still waiting in the channel); and one long line / large
	// message between short ones in a list (seed C09-8: an oversize line written around the pending
	// buffer overtakes the lines before it)
	for _, asc := range []bool{false, true} {
		for _, nsub := range []int{1, 2} {
			cs := goodConn(1)
			if asc {
				cs = goodAscConn("HWC#1=Down")
			}
			sc := &Scenario{Entry: "client", Conns: []ConnScript{cs}, SubStart: 100, Cancel: 1500, ToPanelCap: 16, SharedBacking: true}
			for k := 0; k < nsub; k++ {
				var list []Submission
				for j := 0; j < 8; j++ {
					list = append(list, Submission{Msgs: []*rwp.InboundMessage{randInMsg(rng, uint32(2000*(k+1)+4*j+1), false), randInMsg(rng, uint32(2000*(k+1)+4*j+3), false)}})
				}
				sc.Subs = append(sc.Subs, list)
			}
			mode := "bin"
			if asc {
				mode = "asc"
			}
			sc.ID = fmt.Sprintf("%s-burst-shared-%dsub", mode, nsub)
			scs = append(scs, sc)
			hist[mode+"-burst-shared"]++
		}
		for _, n := range []int{1390, 1400, 1460, 2900, 4090, 4100, 9000, 33000, 70000} {
			cs := goodConn(1)
			if asc {
				cs = goodAscConn("HWC#1=Down")
			}
			js := "{\"k\":\"" + strings.Repeat("x", n) + "\"}"
			long := &rwp.InboundMessage{Command: &rwp.Command{ActivatePanel: true, SetCalibrationProfile: &rwp.CalibrationProfile{Json: js}}}
			short := &rwp.InboundMessage{Command: &rwp.Command{PanelBrightness: &rwp.Brightness{LEDs: 4, OLEDs: 6}}}
			st := &rwp.InboundMessage{States: []*rwp.HWCState{{HWCIDs: []uint32{3}, HWCMode: &rwp.HWCMode{State: 4}}}}
			sc := &Scenario{Entry: "client", Conns: []ConnScript{cs}, SubStart: 100, Cancel: 1500}
			sc.Subs = [][]Submission{{{Msgs: []*rwp.InboundMessage{st, long, short}}, {Msgs: []*rwp.InboundMessage{short, st, long, st}}, {Msgs: []*rwp.InboundMessage{long}}, {Msgs: []*rwp.InboundMessage{st}}}}
			mode := "bin"
			if asc {
				mode = "asc"
			}
			sc.ID = fmt.Sprintf("%s-long-between-short-%d", mode, n)
			scs = append(scs, sc)
			hist[mode+"-long-between-short"]++
		}
	}
	// several connections, the panel changing its behaviour (and the negotiated encoding) from one to
	// the next; six lists submitted on the LAST connection must arrive there in ITS encoding (matrix.go)
	for _, sc := range matrixScenarios(tier, true) {
		scs = append(scs, sc)
		hist["matrix"]++
	}
	meta(map[string]interface{}{"c09_scenarios_by_shape": hist, "scenarios": len(scs)})
	runBatch(scs, 16)
	meta(map[string]interface{}{"reruns": rerunCount, "reruns_rescued": rerunRescued})
}
