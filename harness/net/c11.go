package main

import (
	"fmt"

	rwp "github.com/SKAARHOJ/rawpanel-lib/ibeam_rawpanel"
)

func init() {
	props["C11"] = genC11
	replays["C11"] = replayScenario
}

func ascLine(s string) Item { return Item{Kind: "ln", Data: Lit([]byte(s)), Eol: 0} }

// healthy ASCII connection
func goodAscConn(lines ...string) ConnScript {
	cs := ConnScript{Items: []Item{ascLine("RDY")}, Segs: []SegCut{{0, 4}}, End: "none"}
	for i, l := range lines {
		it := ascLine(l)
		cs.Items = append(cs.Items, it)
		cs.Segs = append(cs.Segs, SegCut{100 + 50*i, len(it.Encode())})
	}
	return cs
}

func genC11(tier string, rng *Rng) {
	if runInChild() {
		return
	}
	findDriver("C11")
	var scs []*Scenario
	hist := map[string]int{}
	add := func(kind string, sc *Scenario) {
		sc.ID = fmt.Sprintf("%s-%d", kind, len(scs))
		sc.Entry = "client"
		scs = append(scs, sc)
		hist[kind]++
	}
	good := func(id uint32) Item { return Item{Kind: "f", Data: Lit(evMsg(id, true))} }
	gl := len(good(1).Encode())
	silent := ConnScript{End: "none"}

	// ---- cancellation before a connection exists
	add("cancel-before-dial", &Scenario{Cancel: 0, Conns: []ConnScript{goodConn(1)}})
	add("cancel-before-dial", &Scenario{Cancel: 0, Conns: []ConnScript{silent}})
	add("cancel-before-dial", &Scenario{Cancel: 0})
	// ---- during the 2 s probe
	add("cancel-in-probe", &Scenario{Cancel: 700, Conns: []ConnScript{silent}})
	{
		late := ConnScript{Items: []Item{ackItem()}, Segs: []SegCut{{1300, 6}}, End: "none"}
		add("cancel-in-probe", &Scenario{Cancel: 600, Conns: []ConnScript{late}})
	}
	// ---- while idle
	add("cancel-idle", &Scenario{Cancel: 900, Conns: []ConnScript{goodConn(1, 2)}})
	add("cancel-idle", &Scenario{Cancel: 900, Conns: []ConnScript{goodAscConn("HWC#1=Down", "HWC#1=Up")}})
	add("cancel-idle", &Scenario{Cancel: 2900, Conns: []ConnScript{silent}})
	// ---- in the middle of a frame / line: k bytes of it have arrived
	victim := good(9).Encode()
	for k := 1; k < len(victim); k++ {
		if tier == "quick" && k > 5 && k%3 != 0 {
			continue
		}
		cs := ConnScript{Items: []Item{ackItem(), good(1), {Kind: "raw", Data: Lit(victim[:k])}}, Segs: []SegCut{{0, 6}, {100, gl}, {300, k}}, End: "none"}
		add("cancel-mid-frame", &Scenario{Cancel: 800, Conns: []ConnScript{cs}})
	}
	for _, k := range []int{1, 5} {
		cs := ConnScript{Items: []Item{ascLine("RDY"), ascLine("HWC#1=Down"), {Kind: "raw", Data: Lit([]byte("HWC#2=Down")[:k])}}, Segs: []SegCut{{0, 4}, {100, 11}, {300, k}}, End: "none"}
		add("cancel-mid-line", &Scenario{Cancel: 800, Conns: []ConnScript{cs}})
	}
	// ---- during a retry wait (100 ms into it), with and without a panel to come back to
	{
		lost := ConnScript{Items: []Item{ackItem(), good(1)}, Segs: []SegCut{{0, 6}, {100, gl}}, End: "close", EndT: 300}
		add("cancel-in-retry", &Scenario{Cancel: 400, Sensitive: true, Conns: []ConnScript{lost, goodConn(2)}})
		add("cancel-in-retry", &Scenario{Cancel: 400, Sensitive: true, Conns: []ConnScript{lost}})
		lostA := goodAscConn("HWC#1=Down")
		lostA.End, lostA.EndT = "close", 300
		add("cancel-in-eof-sleep", &Scenario{Cancel: 700, Conns: []ConnScript{lostA, goodAscConn("ack")}})
		add("cancel-in-retry", &Scenario{Cancel: 1750, Conns: []ConnScript{lostA, goodAscConn("ack")}})
		add("cancel-in-retry", &Scenario{Cancel: 1750, Conns: []ConnScript{lostA}})
	}

	// ---- the panel drops the connection at every byte offset of a scripted stream
	binStream := []Item{good(1), {Kind: "f", Data: Lit(nil)}, good(300)}
	ascStream := []Item{ascLine("HWC#1=Down"), {Kind: "ln", Data: Lit([]byte("ack")), Eol: 1}, ascLine("HWC#22=Up")}
	for mode, stream := range [][]Item{binStream, ascStream} {
		total := 0
		for _, it := range stream {
			total += len(it.Encode())
		}
		first := ackItem()
		after := goodConn(4)
		name := "drop-bin"
		if mode == 1 {
			first = ascLine("RDY")
			after = goodAscConn("HWC#4=Down")
			name = "drop-asc"
		}
		for k := 0; k <= total; k++ {
			if tier == "quick" && k%2 == 1 && k > 6 && k < total-3 {
				continue
			}
			cs := ConnScript{End: "close", EndT: 250}
			// only the first k bytes of the stream are ever sent
			var all []byte
			for _, it := range stream {
				all = append(all, it.Encode()...)
			}
			cs.Items = []Item{first}
			if k > 0 {
				cs.Items = append(cs.Items, Item{Kind: "raw", Data: Lit(all[:k])})
			}
			cs.Segs = []SegCut{{0, len(first.Encode())}, {100, k}}
			if k%5 == 4 {
				cs.End = "reset"
			}
			// binary: dis 250, accept 1250; ASCII with FIN: dis 1250, accept 2250; with RST: dis 250
			cancel := 1250 + 700
			if mode == 1 && cs.End == "close" {
				cancel = 2250 + 700
			}
			add(name, &Scenario{Cancel: cancel, Conns: []ConnScript{cs, after}})
		}
	}

	// ---- a frame whose header is split after its 1st, 2nd or 3rd byte with a pause, between two
	// other frames, then the panel drops: all three complete frames delivered once, then reconnect
	for k := 1; k <= 3; k++ {
		for _, pause := range []int{40, 400} {
			b := good(20 + uint32(k))
			cs := ConnScript{Items: []Item{ackItem(), good(1), b, good(3)}, End: "close", EndT: 900 + pause}
			cs.Segs = []SegCut{{0, 6}, {300, gl + k}, {300 + pause, gl - k + gl}}
			add("header-split", &Scenario{Cancel: 900 + pause + 1000 + 700, Conns: []ConnScript{cs, goodConn(4)}})
		}
	}
	_ = gl

	// ---- wait-group discipline (verif hook): the writer goroutine of the first connection is held
	// at its start for 1.6 s; the panel drops the connection at once and refuses further dials;
	// the context is cancelled 300 ms after the disconnect; wg.Wait() (started right after the
	// cancel) must not return before that goroutine has finished
	{
		lost := ConnScript{Items: []Item{ackItem()}, Segs: []SegCut{{0, 6}}, End: "close", EndT: 60}
		add("wg-writer-held", &Scenario{Cancel: 360, HookDelay: 1600, Conns: []ConnScript{lost}})
		lostA := ConnScript{Items: []Item{ascLine("RDY")}, Segs: []SegCut{{0, 4}}, End: "reset", EndT: 60}
		add("wg-writer-held", &Scenario{Cancel: 360, HookDelay: 1600, Conns: []ConnScript{lostA}})
	}

	// ---- panel absent / refusing, accepting but silent
	// ---- the WRITER is blocked in a socket write (the panel has stopped reading, the application keeps
	// submitting) when the connection ends: by the panel's FIN, an over-limit header, a stall inside a
	// frame, or the cancellation itself.  Whoever ends the connection must close the socket, that is what
	// releases the writer (seed C11-12: the socket closed by the writer on quit - which a blocked writer
	// never sees; the wait group then never drains and the first socket stays open)
	for _, fault := range []string{"fin", "over", "stall", "cancel"} {
		cs := ConnScript{Items: []Item{ackItem(), good(3)}, Segs: []SegCut{{0, 6}, {60, gl}}, End: "none"}
		conns := []ConnScript{cs, goodConn(1, 2)}
		cancel := 0
		switch fault {
		case "fin":
			conns[0].End, conns[0].EndT = "close", 900
			cancel = 900 + 1000 + 700
		case "over":
			conns[0].Items = append(conns[0].Items, Item{Kind: "raw", Data: Lit([]byte{0x20, 0xa1, 0x07, 0x00})}, good(77))
			conns[0].Segs = append(conns[0].Segs, SegCut{900, 4 + gl})
			cancel = 900 + 1000 + 700
		case "stall":
			conns[0].Items = append(conns[0].Items, Item{Kind: "raw", Data: Lit([]byte{100, 0, 0, 0, 1, 2, 3, 4, 5, 6, 7, 8, 9, 10})})
			conns[0].Segs = append(conns[0].Segs, SegCut{900, 14})
			cancel = 900 + 2000 + 1000 + 700
		case "cancel":
			conns = conns[:1]
			cancel = 1200
		}
		add("writer-blocked-"+fault, &Scenario{Cancel: cancel, Conns: conns, ReadPauseFrom: 150, ReadPauseTo: 0, FloodKB: 16384, SubStart: 200,
			Subs: [][]Submission{{{Msgs: []*rwp.InboundMessage{{FlowMessage: rwp.InboundMessage_PING}}}}}})
	}
	add("absent", &Scenario{Cancel: 800})
	add("absent", &Scenario{Cancel: 3500})
	add("absent-cfg", &Scenario{Cancel: 1500, UseCfg: true, NoConn: 1})
	add("silent", &Scenario{Cancel: 2700, Conns: []ConnScript{silent}})
	// ---- panel appears later: default (3 s) and configured (1 s) no-connection retry period
	add("appears", &Scenario{Cancel: 3700, ListenFrom: 1500, Conns: []ConnScript{goodConn(1)}})
	// the application keeps submitting while there is no panel (periodic state updates): the client still
	// finds the panel soon after it appears (seed C11-16: the no-connection wait re-armed its timer on every
	// submission and never dialled again while submissions kept coming)
	{
		var list []Submission
		for j := 0; j < 14; j++ {
			list = append(list, Submission{Msgs: []*rwp.InboundMessage{{FlowMessage: rwp.InboundMessage_PING}}, Delay: 250})
		}
		add("appears-while-submitting", &Scenario{Cancel: 3700, ListenFrom: 1500, SubConn: -1, SubStart: 100, Conns: []ConnScript{goodConn(1)}, Subs: [][]Submission{list}})
		add("appears-while-submitting-cfg", &Scenario{Cancel: 3700, ListenFrom: 1500, SubConn: -1, SubStart: 100, UseCfg: true, NoConn: 1, Conns: []ConnScript{goodConn(1)}, Subs: [][]Submission{list}})
	}
	add("appears-cfg", &Scenario{Cancel: 2700, ListenFrom: 1500, UseCfg: true, NoConn: 1, Conns: []ConnScript{goodConn(1)}})
	// ---- three loss / reconnect cycles, default and configured reconnection period
	{
		lossy := func(id uint32) ConnScript {
			c := goodConn(id)
			c.End, c.EndT = "close", 250
			return c
		}
		add("cycles", &Scenario{Cancel: 3*1250 + 700, Conns: []ConnScript{lossy(1), lossy(2), lossy(3), goodConn(4)}})
		add("cycles-cfg", &Scenario{Cancel: 2*2250 + 700, UseCfg: true, ReConn: 2, Conns: []ConnScript{lossy(1), lossy(2), goodConn(3)}})
		if tier == "thorough" {
			la := func(l string) ConnScript {
				c := goodAscConn(l)
				c.End, c.EndT = "close", 250
				return c
			}
			add("cycles-asc", &Scenario{Cancel: 3*2250 + 700, Conns: []ConnScript{la("HWC#1=Up"), la("HWC#2=Up"), la("HWC#3=Up"), goodAscConn("HWC#4=Up")}})
		}
	}
	if tier == "thorough" { // random cancellation instants over a two-connection history
		for i := 0; i < 60; i++ {
			lost := ConnScript{Items: []Item{ackItem(), good(1), good(2)}, Segs: []SegCut{{0, 6}, {100, gl}, {400, gl}}, End: "close", EndT: 600}
			// events at 0,100,400,600, 1600 (redial), 1700 (frame): keep 450 ms away from all
			c := pickCancel(rng.Range(450, 2600), []int{0, 100, 400, 600, 1600, 1700}, 250)
			sc := &Scenario{Cancel: c, Conns: []ConnScript{lost, goodConn(3)}, Sensitive: true}
			add("cancel-random", sc)
		}
	}
	// ---- cancellation while the read loop is NOT inside a read: a complete frame / line has arrived,
	// the application picks it up late (RecvFrom), the cancel falls in between (seed C11-7: the writer
	// arming an expired read deadline instead of closing the socket is undone by the reader's next
	// deadline reset, the call never returns).  The frame is still delivered once, then the cancelled
	// disconnect, the return, the drained wait group and the closed socket.
	for _, asc := range []bool{false, true} {
		for _, tm := range [][3]int{{300, 700, 1000}, {300, 400, 1800}, {100, 1200, 1500}} {
			cs := goodConn()
			ev := good(5)
			if asc {
				cs = goodAscConn()
				ev = ascLine("HWC#5=Down")
			}
			cs.Items = append(cs.Items, ev)
			cs.Segs = append(cs.Segs, SegCut{tm[0], len(ev.Encode())})
			add("cancel-consumer-slow", &Scenario{Cancel: tm[1], RecvFrom: tm[2], Conns: []ConnScript{cs}})
		}
	}
	// ---- a listen-only client (msgsToPanel == nil): cancellation, loss and reconnect work as for any other
	// (seed C11-9: the writer goroutine, which is also what watches the context on an established
	// connection, quits at once when there is nothing to write)
	for _, asc := range []bool{false, true} {
		cs, lost, after := goodConn(1, 2), goodConn(1), goodConn(3)
		if asc {
			cs, lost, after = goodAscConn("HWC#1=Down", "HWC#2=Up"), goodAscConn("HWC#1=Down"), goodAscConn("HWC#3=Down")
		}
		add("listen-only-cancel-idle", &Scenario{Cancel: 900, NilToPanel: true, Conns: []ConnScript{cs}})
		lost.End, lost.EndT = "close", 300
		redial := 1300
		if asc {
			redial = 2300
		}
		add("listen-only-loss-reconnect", &Scenario{Cancel: redial + 800, NilToPanel: true, Conns: []ConnScript{lost, after}})
		add("listen-only-cancel-in-probe", &Scenario{Cancel: 700, NilToPanel: true, Conns: []ConnScript{{End: "none"}}})
	}
	// ---- submissions while the connection is dying: the panel closes completely (writes now fail with
	// EPIPE / RST) and the application keeps submitting during the ASCII end-of-stream pause and during the
	// retry wait; a failed write is not a cancellation: disconnect(false), reconnect after the period,
	// delivery resumes (seed C11-8)
	for _, asc := range []bool{false, true} {
		first := goodConn(1)
		second := goodConn(2)
		redial := 300 + 1000
		if asc {
			first = goodAscConn("HWC#1=Down")
			second = goodAscConn("HWC#2=Down")
			redial = 300 + 2000
		}
		first.End, first.EndT = "fullclose", 300
		var list []Submission
		for j := 0; j < 8; j++ {
			m := &rwp.InboundMessage{FlowMessage: rwp.InboundMessage_PING}
			list = append(list, Submission{Msgs: []*rwp.InboundMessage{m}, Delay: 150})
		}
		add("submit-while-dying", &Scenario{Cancel: redial + 900, Conns: []ConnScript{first, second}, Subs: [][]Submission{list}, SubStart: 250})
	}
	// ---- several connections, the panel changing its behaviour from one to the next (matrix.go)
	for _, sc := range matrixScenarios(tier, false) {
		id := sc.ID
		add("matrix", sc)
		sc.ID = id
	}
	meta(map[string]interface{}{"c11_scenarios_by_kind": hist, "scenarios": len(scs)})
	runBatch(scs, 64)
	meta(map[string]interface{}{"reruns": rerunCount, "reruns_rescued": rerunRescued})
}
