package main

import (
	"encoding/binary"
	"fmt"

	rwp "github.com/SKAARHOJ/rawpanel-lib/ibeam_rawpanel"
)

func init() {
	props["C08"] = genC08
	replays["C08"] = replayScenario
}

func ackItem() Item { return Item{Kind: "f", Data: Lit(ackPayload)} }

func uvarint(n int) []byte {
	b := make([]byte, 10)
	k := binary.PutUvarint(b, uint64(n))
	return b[:k]
}

// an OutboundMessage payload of exactly `size` bytes: PanelInfo.Name = "aaa..." (valid
// protobuf) where the size is reachable, junk bytes for the tiny sizes
func payloadOfSize(size int) Bs {
	switch {
	case size == 0:
		return Lit(nil)
	case size == 1:
		return Lit([]byte{0x08}) // truncated field: Unmarshal fails, the (empty) message is still delivered
	case size < 6:
		return Lit(append([]byte{0x08, 0x02}, make([]byte, size-2)...)[:size])
	}
	for n := size; n >= 0; n-- { // outer: 0x22 len(inner); inner: 0x1a len(n) n*'a'
		inner := 1 + len(uvarint(n)) + n
		if 1+len(uvarint(inner))+inner == size {
			pre := append([]byte{0x22}, uvarint(inner)...)
			pre = append(pre, 0x1a)
			pre = append(pre, uvarint(n)...)
			return Bs{{Lit: pre}, {N: n, C: 'a'}}
		}
	}
	// sizes not reachable with one field: pad with a second varint field
	b := payloadOfSize(size - 2)
	return append(b, BsPart{Lit: []byte{0x08, 0x02}})
}

func evMsg(id uint32, pressed bool) []byte {
	return mustMarshal(&rwp.OutboundMessage{Events: []*rwp.HWCEvent{{HWCID: id, Binary: &rwp.BinaryEvent{Pressed: pressed}}}})
}

func randOutPayload(rng *Rng) []byte {
	switch rng.Intn(6) {
	case 0:
		return evMsg(uint32(rng.Range(1, 300)), rng.Bool())
	case 1:
		return mustMarshal(&rwp.OutboundMessage{FlowMessage: rwp.OutboundMessage_FlowMsg(rng.Range(1, 3))})
	case 2:
		return mustMarshal(&rwp.OutboundMessage{PanelInfo: &rwp.PanelInfo{Model: "SK_" + string(rune('A'+rng.Intn(26))), Serial: fmt.Sprint(rng.Range(0, 999999))}})
	case 3:
		return mustMarshal(&rwp.OutboundMessage{Events: []*rwp.HWCEvent{{HWCID: uint32(rng.Range(1, 99)), Absolute: &rwp.AbsoluteEvent{Value: uint32(rng.Range(0, 1000))}}, {HWCID: uint32(rng.Range(1, 99)), Pulsed: &rwp.PulsedEvent{Value: int32(rng.Range(-5, 5))}}}})
	case 4:
		return nil
	}
	return mustMarshal(&rwp.OutboundMessage{HWCavailability: map[uint32]uint32{uint32(rng.Range(1, 50)): 1}})
}

var asciiLines = []string{"HWC#1=Down", "HWC#1=Up", "HWC#12=Abs:500", "HWC#7=Enc:-2", "_model=SK_X", "_serial=1234", "ack", "ping", "list", "map=1:2", "HWC#3.4=Press", "nack", "BSY", "_name=panel one", ""}

func randLine(rng *Rng) Item {
	l := asciiLines[rng.Intn(len(asciiLines))]
	switch rng.Intn(8) {
	case 0:
		l = " " + l
	case 1:
		l = l + " \t"
	}
	return Item{Kind: "ln", Data: Lit([]byte(l)), Eol: rng.Intn(2)}
}

// a connection: first item in its own segment at time 0 (the negotiation reply), the rest of
// the stream cut at the given positions (relative to the rest), segment k sent at times[k]
func connWithCuts(first Item, rest []Item, cuts []int, t0, dt int) ConnScript {
	cs := ConnScript{Items: append([]Item{first}, rest...), End: "none"}
	cs.Segs = []SegCut{{0, len(first.Encode())}}
	total := 0
	for _, it := range rest {
		total += len(it.Encode())
	}
	prev := 0
	t := t0
	for _, c := range cuts {
		if c > prev && c < total {
			cs.Segs = append(cs.Segs, SegCut{t, c - prev})
			prev = c
			t += dt
		}
	}
	cs.Segs = append(cs.Segs, SegCut{t, total - prev})
	return cs
}

func lastSegT(cs ConnScript) int {
	t := 0
	for _, s := range cs.Segs {
		if s.T > t {
			t = s.T
		}
	}
	return t
}

func genC08(tier string, rng *Rng) {
	if runInChild() {
		return
	}
	findDriver("C08")
	var scs []*Scenario
	hist := map[string]int{}
	add := func(kind string, cs ConnScript) {
		sc := &Scenario{ID: fmt.Sprintf("%s-%d", kind, len(scs)), Entry: "client", Conns: []ConnScript{cs}}
		sc.Cancel = lastSegT(cs) + 500
		scs = append(scs, sc)
		hist[kind]++
	}
	rdy := Item{Kind: "ln", Data: Lit([]byte("RDY"))}

	// payload sizes around the boundaries, each frame in one write
	{
		var rest []Item
		cs := ConnScript{End: "none"}
		sizes := []int{0, 1, 999, 1000, 1001, 65536, 499999, 2, 127, 128, 16383, 16384}
		for _, s := range sizes {
			rest = append(rest, Item{Kind: "f", Data: payloadOfSize(s)})
		}
		cs.Items = append([]Item{ackItem()}, rest...)
		cs.Segs = []SegCut{{0, 6}}
		for i, it := range rest {
			cs.Segs = append(cs.Segs, SegCut{60 + 40*i, len(it.Encode())})
		}
		add("sizes", cs)
		// the same, 499999 and 65536 cut into 7 uneven pieces, 5 ms apart
		big := []Item{{Kind: "f", Data: payloadOfSize(499999)}, {Kind: "f", Data: payloadOfSize(65536)}, {Kind: "f", Data: payloadOfSize(1000)}}
		add("sizes-cut", connWithCuts(ackItem(), big, []int{3, 4, 5, 70000, 300000, 500003, 500005, 500010, 565000}, 60, 5))
	}

	// payload sizes around every power of two from 2^8 to 2^18 (n-4 .. n+1) and a random sample of
	// other sizes; each frame in one write, and each frame cut inside its header / payload
	{
		var sweep []int
		for e := 8; e <= 18; e++ {
			for d := -4; d <= 1; d++ {
				sweep = append(sweep, 1<<uint(e)+d)
			}
		}
		nr := 10
		if tier == "thorough" {
			nr = 60
		}
		for i := 0; i < nr; i++ {
			sweep = append(sweep, rng.Range(2, 1<<uint(rng.Range(8, 17))))
		}
		var group []int
		sum := 0
		flush := func() {
			if len(group) == 0 {
				return
			}
			var rest []Item
			for _, n := range group {
				rest = append(rest, Item{Kind: "f", Data: payloadOfSize(n)})
			}
			// whole frames, 10 ms apart
			cs := ConnScript{Items: append([]Item{ackItem()}, rest...), End: "none", Segs: []SegCut{{0, 6}}}
			for i, it := range rest {
				cs.Segs = append(cs.Segs, SegCut{300 + 10*i, len(it.Encode())})
			}
			add("size-sweep", cs)
			// every frame cut inside its header and at a random point of its payload
			if tier == "thorough" || sum < 300000 || rng.Intn(3) == 0 {
				var cuts []int
				pos := 0
				for _, it := range rest {
					l := len(it.Encode())
					cuts = append(cuts, pos+rng.Range(1, 3), pos+4+rng.Range(1, l-5))
					pos += l
					cuts = append(cuts, pos)
				}
				add("size-sweep-cut", connWithCuts(ackItem(), rest, cuts, 300, 3))
			}
			group, sum = nil, 0
		}
		for _, n := range sweep {
			if sum+n > 600000 {
				flush()
			}
			group = append(group, n)
			sum += n
		}
		flush()
	}

	// every single and double cut point of a short stream, binary and ASCII
	binShort := []Item{{Kind: "f", Data: Lit(evMsg(5, true))}, {Kind: "f", Data: Lit(nil)}, {Kind: "f", Data: Lit(ackPayload)}}
	ascShort := []Item{{Kind: "ln", Data: Lit([]byte("HWC#1=Up")), Eol: 1}, {Kind: "ln", Data: Lit([]byte("ack")), Eol: 0}, {Kind: "ln", Data: Lit([]byte("")), Eol: 1}}
	if tier == "thorough" {
		binShort = append(binShort, Item{Kind: "f", Data: Lit(evMsg(300, false))}, Item{Kind: "f", Data: Lit([]byte{0x08})})
		ascShort = append(ascShort, Item{Kind: "ln", Data: Lit([]byte(" HWC#12=Abs:500 ")), Eol: 1}, Item{Kind: "ln", Data: Lit([]byte("list")), Eol: 0})
	}
	for mode, rest := range [][]Item{binShort, ascShort} {
		first := ackItem()
		name := "bin"
		if mode == 1 {
			first = rdy
			name = "asc"
		}
		total := 0
		for _, it := range rest {
			total += len(it.Encode())
		}
		for a := 1; a < total; a++ {
			add(name+"-cut1", connWithCuts(first, rest, []int{a}, 50, 30))
			for b := a + 1; b < total; b++ {
				add(name+"-cut2", connWithCuts(first, rest, []int{a, b}, 50, 30))
			}
		}
		// 1-byte dribble
		var all []int
		for a := 1; a < total; a++ {
			all = append(all, a)
		}
		add(name+"-dribble", connWithCuts(first, rest, all, 50, 5))
		add(name+"-dribble0", connWithCuts(first, rest, all, 50, 0))
	}

	// idle gaps longer than the in-frame timeout between messages; slow but legal frames
	{
		f := func(id uint32) Item { return Item{Kind: "f", Data: Lit(evMsg(id, true))} }
		cs := ConnScript{Items: []Item{ackItem(), f(1), f(2), f(3)}, End: "none"}
		n := len(f(1).Encode())
		cs.Segs = []SegCut{{0, 6}, {100, n}, {2400, n}, {4700, 2}, {6200, 2}, {7700, n - 4}} // 2.3 s gaps; header 1.5 s, payload 1.5 s after it
		if tier == "quick" {
			cs.Segs = []SegCut{{0, 6}, {100, n}, {2400, n}, {2500, 2}, {3900, 2}, {5300, n - 4}}
		}
		add("bin-idle", cs)
		l := func(s string) Item { return Item{Kind: "ln", Data: Lit([]byte(s)), Eol: 1} }
		ca := ConnScript{Items: []Item{rdy, l("HWC#1=Down"), l("HWC#1=Up"), l("HWC#2=Down")}, End: "none"}
		ca.Segs = []SegCut{{0, 4}, {100, 12}, {2400, 5}, {4700, 5 + 12}}
		add("asc-idle", ca)
		if tier == "thorough" {
			cs2 := ConnScript{Items: []Item{ackItem(), f(1), f(2)}, End: "none", Segs: []SegCut{{0, 6}, {4500, n}, {9000, n}}}
			add("bin-idle-long", cs2)
		}
	}

	// an EMPTY frame followed by an idle period longer than the in-frame timeout, then traffic
	// (also with the empty frame's header split across segments)
	{
		f := func(id uint32) Item { return Item{Kind: "f", Data: Lit(evMsg(id, true))} }
		e := Item{Kind: "f", Data: Lit(nil)}
		n := len(f(1).Encode())
		cs := ConnScript{Items: []Item{ackItem(), f(1), e, f(2), e, f(3)}, End: "none"}
		cs.Segs = []SegCut{{0, 6}, {100, n + 4}, {2700, n}, {2800, 2}, {2900, 2}, {5500, n}}
		add("bin-idle-after-empty", cs)
		cs2 := ConnScript{Items: []Item{ackItem(), e, f(4)}, End: "none", Segs: []SegCut{{0, 6}, {100, 4}, {2600, n}}}
		add("bin-idle-after-empty", cs2)
	}
	// long ASCII lines (topology-sized), cut at random points; a line after them must still arrive
	{
		long := func(n int) Item {
			return Item{Kind: "ln", Data: Bs{{Lit: []byte("_panelTopology_HWC=")}, {N: n - 19, C: 'x'}}, Eol: 1}
		}
		for _, sizes := range [][]int{{60000, 66000}, {200000}, {65534, 65535, 65536}} {
			rest := []Item{{Kind: "ln", Data: Lit([]byte("HWC#1=Down")), Eol: 0}}
			total := 0
			for _, n := range sizes {
				rest = append(rest, long(n))
			}
			rest = append(rest, Item{Kind: "ln", Data: Lit([]byte("HWC#2=Up")), Eol: 0})
			for _, it := range rest {
				total += len(it.Encode())
			}
			var cuts []int
			pos := 0
			for pos < total-1 {
				pos += rng.Range(1, 50000)
				cuts = append(cuts, pos)
			}
			add("asc-long-lines", connWithCuts(rdy, rest, cuts, 50, 5))
		}
	}
	// the panel goes away after an unterminated fragment: nothing may be delivered for it
	{
		for _, frag := range []string{"_serial=ABC", "HWC#2=Do", "x"} {
			cs := ConnScript{Items: []Item{rdy, {Kind: "ln", Data: Lit([]byte("HWC#1=Down")), Eol: 1}, {Kind: "raw", Data: Lit([]byte(frag))}}, End: "close", EndT: 300}
			cs.Segs = []SegCut{{0, 4}, {100, 12}, {150, len(frag)}}
			sc := &Scenario{ID: fmt.Sprintf("asc-fragment-at-close-%d", len(scs)), Entry: "client", Conns: []ConnScript{cs}, Cancel: 1900}
			scs = append(scs, sc)
			hist["asc-fragment-at-close"]++
		}
		victim := Item{Kind: "f", Data: Lit(evMsg(9, true))}.Encode()
		cs := ConnScript{Items: []Item{ackItem(), {Kind: "f", Data: Lit(evMsg(1, true))}, {Kind: "raw", Data: Lit(victim[:7])}}, End: "close", EndT: 300}
		cs.Segs = []SegCut{{0, 6}, {100, len(victim)}, {150, 7}}
		scs = append(scs, &Scenario{ID: fmt.Sprintf("bin-fragment-at-close-%d", len(scs)), Entry: "client", Conns: []ConnScript{cs}, Cancel: 900})
		hist["bin-fragment-at-close"]++
	}

	// random cuts of longer random streams, binary and ASCII, delays 0/5/50 ms
	nrand := 40
	if tier == "thorough" {
		nrand = 400
	}
	for k := 0; k < nrand; k++ {
		asc := k%2 == 1
		var rest []Item
		n := rng.Range(3, 30)
		total := 0
		for i := 0; i < n; i++ {
			var it Item
			if asc {
				it = randLine(rng)
			} else {
				it = Item{Kind: "f", Data: Lit(randOutPayload(rng))}
			}
			rest = append(rest, it)
			total += len(it.Encode())
		}
		var cuts []int
		nc := rng.Range(0, 20)
		pos := 0
		for i := 0; i < nc && pos < total-1; i++ {
			pos += rng.Range(1, 1+total/4)
			cuts = append(cuts, pos)
		}
		first := ackItem()
		name := "bin-rand"
		if asc {
			first = rdy
			name = "asc-rand"
		}
		add(name, connWithCuts(first, rest, cuts, 50, rng.Pick([]int{0, 5, 50})))
	}
	// the application WRITES to the panel, then the panel is idle for more than 2 s, then sends again: what
	// the writer does to the socket (deadlines!) must not shorten the unlimited idle period between
	// frames (seed C08-9: a write timeout armed with SetDeadline also arms - or clears - the read side)
	for _, asc := range []bool{false, true} {
		for _, subAt := range []int{150, 1200} {
			first := Item{Kind: "f", Data: Lit(evMsg(1, true))}
			a, b := Item{Kind: "f", Data: Lit(evMsg(2, true))}, Item{Kind: "f", Data: Lit(evMsg(3, false))}
			cs := ConnScript{End: "none"}
			if asc {
				first = Item{Kind: "ln", Data: Lit([]byte("HWC#1=Down"))}
				a, b = Item{Kind: "ln", Data: Lit([]byte("HWC#2=Down")), Eol: 1}, Item{Kind: "ln", Data: Lit([]byte("HWC#3=Up"))}
				cs.Items = []Item{rdy, first, a, b}
				cs.Segs = []SegCut{{0, 4}, {60, len(first.Encode())}, {subAt + 2700, len(a.Encode())}, {subAt + 2750, len(b.Encode())}}
			} else {
				cs.Items = []Item{ackItem(), first, a, b}
				cs.Segs = []SegCut{{0, 6}, {60, len(first.Encode())}, {subAt + 2700, len(a.Encode())}, {subAt + 2750, len(b.Encode())}}
			}
			sc := &Scenario{ID: fmt.Sprintf("write-then-idle-%v-%d", asc, subAt), Entry: "client", Conns: []ConnScript{cs}, SubStart: subAt, Cancel: subAt + 3300,
				Subs: [][]Submission{{{Msgs: []*rwp.InboundMessage{{Command: &rwp.Command{SendPanelInfo: true}}}}, {Msgs: []*rwp.InboundMessage{{FlowMessage: 1}}, Delay: 300}}}}
			scs = append(scs, sc)
			hist["write-then-idle"]++
		}
	}
	// several connections, the panel changing its behaviour from one to the next (matrix.go): what is
	// delivered on a connection depends on that connection's negotiation only
	for _, sc := range matrixScenarios(tier, false) {
		scs = append(scs, sc)
		hist["matrix"]++
	}
	meta(map[string]interface{}{"c08_scenarios_by_kind": hist, "scenarios": len(scs)})
	runBatch(scs, 64)
	meta(map[string]interface{}{"reruns": rerunCount, "reruns_rescued": rerunRescued})
}
