// Scenario engine for C08-C12: runs the REAL ConnectToPanel / AutoDetectIfPanelEncodingIsBinary
// against a scripted TCP peer on 127.0.0.1 and prints (scenario, observed trace) as one case.
//
// A scenario is: client configuration, the instant the context is cancelled, the instant
// from which the listener exists, and one script per accepted connection.  A script is a
// list of stream items (well-formed frame / raw bytes / ASCII line), a cutting of the
// resulting byte stream into segments with send times (ms after accept), and how the
// stream ends (nothing / FIN / RST).  Everything the peer does is time-driven.
package main

import (
	"bytes"
	"context"
	"crypto/sha256"
	"encoding/binary"
	"fmt"
	"net"
	"os"
	"os/exec"
	"path/filepath"
	"regexp"
	"runtime"
	"sort"
	"strconv"
	"strings"
	"sync"
	"time"

	rwl "github.com/SKAARHOJ/rawpanel-lib"
	rwp "github.com/SKAARHOJ/rawpanel-lib/ibeam_rawpanel"
	"google.golang.org/protobuf/proto"
)

// ---------- byte-string descriptors (keep 500 kB payloads out of the case text) ----------
type BsPart struct {
	Lit []byte
	N   int // > 0: N copies of C
	C   byte
}
type Bs []BsPart

func Lit(b []byte) Bs      { return Bs{{Lit: b}} }
func Rep(n int, c byte) Bs { return Bs{{N: n, C: c}} }
func (b Bs) Bytes() []byte {
	var o []byte
	for _, p := range b {
		if p.N > 0 {
			o = append(o, bytes.Repeat([]byte{p.C}, p.N)...)
		} else {
			o = append(o, p.Lit...)
		}
	}
	return o
}
func (p BsPart) sx() Sx {
	if p.N > 0 {
		return L(Sym("rep"), p.N, int(p.C))
	}
	return p.Lit
}
func (b Bs) Sx() Sx {
	if len(b) == 0 {
		return []byte{}
	}
	if len(b) == 1 {
		return b[0].sx()
	}
	l := []Sx{Sym("cat")}
	for _, p := range b {
		l = append(l, p.sx())
	}
	return l
}
func parseBs(n *Node) Bs {
	if !n.IsList {
		return Lit(n.Bytes())
	}
	if len(n.Kids) == 3 && n.Kids[0].Atom == "rep" {
		return Rep(n.Kids[1].Int(), byte(n.Kids[2].Int()))
	}
	var o Bs
	if len(n.Kids) > 0 && n.Kids[0].Atom == "cat" {
		for _, k := range n.Kids[1:] {
			o = append(o, parseBs(k)...)
		}
	}
	return o
}

// ---------- scenario ----------
type Item struct {
	Kind string // "f" frame with payload Data | "raw" bytes | "ln" ASCII line
	Data Bs
	Eol  int // ln: 0 = LF, 1 = CRLF
}

func (it Item) Encode() []byte {
	d := it.Data.Bytes()
	switch it.Kind {
	case "f":
		h := make([]byte, 4)
		binary.LittleEndian.PutUint32(h, uint32(len(d)))
		return append(h, d...)
	case "ln":
		if it.Eol == 1 {
			return append(d, '\r', '\n')
		}
		return append(d, '\n')
	}
	return d
}

type SegCut struct{ T, N int } // at T ms after accept write the next N bytes of the stream

type ConnScript struct {
	Items []Item
	Segs  []SegCut
	End   string // "none" | "close" | "reset"
	EndT  int
}

func (c *ConnScript) Stream() []byte {
	var s []byte
	for _, it := range c.Items {
		s = append(s, it.Encode()...)
	}
	return s
}

// Segments actually sent: the cuts are applied to the stream in order; a cut beyond the end
// is truncated, bytes left over after the last cut are sent with it (or at time 0).
func (c *ConnScript) Segments() (ts []int, segs [][]byte) {
	s := c.Stream()
	pos := 0
	for i, cut := range c.Segs {
		n := cut.N
		if i == len(c.Segs)-1 || n > len(s)-pos {
			n = len(s) - pos
		}
		if n > 0 {
			ts = append(ts, cut.T)
			segs = append(segs, s[pos:pos+n])
		}
		pos += n
	}
	if pos < len(s) {
		ts = append(ts, 0)
		segs = append(segs, s[pos:])
	}
	return
}

type Submission struct {
	Msgs  []*rwp.InboundMessage
	Delay int // ms to wait before handing this one over
}

type Scenario struct {
	ID           string
	Entry        string // "client" | "detector"
	UseCfg       bool
	NoConn       int // seconds (0 = default)
	ReConn       int
	ListenFrom   int // ms; dials before are refused
	Cancel       int // ms; the context is cancelled then (every scenario ends that way); <= 0: before the call
	Sensitive    bool
	Conns        []ConnScript
	SubStart     int            // ms after onconnect
	Subs         [][]Submission // per submitter goroutine
	MeasureMem   bool
	RecvFrom     int    // ms: the consumer of msgsFromPanel starts receiving only then (0 = at once)
	SubConn      int    // submissions start at this (0-based) onconnect; -1: before the call (queued when the connection comes up)
	ConnectSleep int    // ms the onconnect callback takes
	ConnectWrite []byte // bytes the onconnect callback writes to the conn it is handed
	HookDelay    int    // ms: the writer goroutine of the FIRST connection is held at its start for this long (verif hook; runs alone)
	// harness-only knobs (not part of the model's input; carried in the scenario ID for replays, see knobSuffix):
	ReadPauseFrom int    // ms after its accept from which the panel of connection 0 stops READING what the client writes (0 = never)
	ReadPauseTo   int    // ms at which it reads again (0 with ReadPauseFrom > 0 = never again): back-pressure on the client's writer
	ToPanelCap    int    // capacity of the msgsToPanel channel (0 = unbuffered)
	SharedBacking bool   // all lists of one submitter are sub-slices of ONE array with spare capacity behind each of them
	NilToPanel    bool   // ConnectToPanel is given a nil msgsToPanel channel (a listen-only client)
	SmallBuffers  bool   // 4 KiB socket buffers on both ends (the peer's receive buffer, the client's send buffer through the conn handed to onconnect): a few hundred KiB block the writer while the panel is not reading, so the blocked-writer situations fit into a case line
	SameAddrAs    string // scenarios naming the same group listen on ONE address (a port reserved for the group on first use, the process's lifetime): state a library keeps per address string carries over from one scenario of the group to the next; use with Alone, in order
	Alone         bool   // nothing else runs in this process meanwhile (package-level state of the library - a shared cache, a pool - would otherwise be disturbed by the other scenarios' traffic, which can HIDE a defect: seed C09-14's one-slot frame cache only hits when no other message is encoded in between)
	SameObjects   bool   // every submitter reuses ONE message object per list position: before each submission the objects are overwritten in place with that submission's content (how an application keeps "the state of button 7"); use with a Delay that lets the previous list reach the panel
	FloodKB       int    // an extra submitter hands in 32 KiB graphics states (not listed in the case) from SubStart on until that many KiB are in or the context ends
}

// knobs travel in the ID so that a replayed case line reproduces them: name~pf700~pt0~cap16~sh
func (sc *Scenario) knobSuffix() string {
	s := ""
	if sc.ReadPauseFrom > 0 {
		s += fmt.Sprintf("-PF%d-PT%d", sc.ReadPauseFrom, sc.ReadPauseTo)
	}
	if sc.ToPanelCap > 0 {
		s += fmt.Sprintf("-CAP%d", sc.ToPanelCap)
	}
	if sc.SharedBacking {
		s += "-SHARED"
	}
	if sc.FloodKB > 0 {
		s += fmt.Sprintf("-FLOOD%d", sc.FloodKB)
	}
	if sc.NilToPanel {
		s += "-NILTP"
	}
	if sc.SameObjects {
		s += "-SAMEOBJ"
	}
	if sc.SmallBuffers {
		s += "-SMALLBUF"
	}
	if sc.SameAddrAs != "" {
		s += "-ADDRGRP" + sc.SameAddrAs
	}
	return s
}

var knobRe = regexp.MustCompile(`-(PF|PT|CAP|FLOOD)(\d+)|-(SHARED|NILTP|SAMEOBJ|SMALLBUF)|-ADDRGRP([a-z]+)`)

var addrGroups = map[string]string{} // group -> "127.0.0.1:port"

func (sc *Scenario) parseKnobs() {
	for _, m := range knobRe.FindAllStringSubmatch(sc.ID, -1) {
		v, _ := strconv.Atoi(m[2])
		switch {
		case m[1] == "PF":
			sc.ReadPauseFrom = v
		case m[1] == "PT":
			sc.ReadPauseTo = v
		case m[1] == "CAP":
			sc.ToPanelCap = v
		case m[1] == "FLOOD":
			sc.FloodKB = v
		case m[3] == "SHARED":
			sc.SharedBacking = true
		case m[3] == "NILTP":
			sc.NilToPanel = true
		case m[3] == "SAMEOBJ":
			sc.SameObjects = true
		case m[3] == "SMALLBUF":
			sc.SmallBuffers = true
		case m[4] != "":
			sc.SameAddrAs = m[4]
		}
	}
}

// ---------- canonical digests (oracle values for unmarshal / decode / marshal) ----------
func canonOut(msgs []*rwp.OutboundMessage) []byte {
	h := sha256.New()
	var l [8]byte
	binary.LittleEndian.PutUint64(l[:], uint64(len(msgs)))
	h.Write(l[:])
	for _, m := range msgs {
		b, err := proto.MarshalOptions{Deterministic: true, AllowPartial: true}.Marshal(m)
		if err != nil {
			b = []byte("ERR:" + err.Error())
		}
		binary.LittleEndian.PutUint64(l[:], uint64(len(b)))
		h.Write(l[:])
		h.Write(b)
	}
	return h.Sum(nil)[:8]
}
func canonIn(m *rwp.InboundMessage) []byte {
	h := sha256.New()
	b, err := proto.MarshalOptions{Deterministic: true, AllowPartial: true}.Marshal(m)
	if err != nil {
		b = []byte("ERR:" + err.Error())
	}
	h.Write(b)
	return h.Sum(nil)[:8]
}

// what the client will deliver for a binary payload: a fresh message, Unmarshal, error ignored
func oracleUnmarshal(p []byte) []byte {
	m := &rwp.OutboundMessage{}
	proto.Unmarshal(p, m)
	return canonOut([]*rwp.OutboundMessage{m})
}
func oracleDecode(trimmed string) []byte {
	return canonOut(rwl.RawPanelASCIIstringsToOutboundMessages([]string{trimmed}))
}

// ---------- observation log ----------
type obsLog struct {
	mu    sync.Mutex
	start time.Time
	ev    []Sx
}

func (o *obsLog) ms() int { return int(time.Since(o.start) / time.Millisecond) }
func (o *obsLog) add(f func(t int) Sx) {
	o.mu.Lock()
	o.ev = append(o.ev, f(o.ms()))
	o.mu.Unlock()
}

type peerRec struct {
	recv    []byte
	endKind int // 0 none, 1 EOF, 2 reset/other error
	endT    int
	conn    net.Conn
	done    chan struct{}
}

// ---------- running one scenario ----------
func runScenario(sc *Scenario) []Sx {
	var m0 runtime.MemStats
	if sc.MeasureMem {
		runtime.ReadMemStats(&m0)
	}
	lg := &obsLog{start: time.Now()}
	// a port nobody listens on until ListenFrom
	listenAt := "127.0.0.1:0"
	if sc.SameAddrAs != "" && addrGroups[sc.SameAddrAs] != "" {
		listenAt = addrGroups[sc.SameAddrAs]
	}
	l0, err := net.Listen("tcp", listenAt)
	if err != nil {
		return []Sx{L(Sym("inv"), Sym("listen"))}
	}
	if sc.SameAddrAs != "" {
		addrGroups[sc.SameAddrAs] = l0.Addr().String()
	}
	addr := l0.Addr().String()
	var ln net.Listener
	var lnMu sync.Mutex
	closeListener := func() {
		lnMu.Lock()
		if ln != nil {
			ln.Close()
			ln = nil
		}
		lnMu.Unlock()
	}
	var peers []*peerRec
	var peersMu sync.Mutex
	invalid := ""
	acceptLoop := func(l net.Listener) {
		for i := 0; i < len(sc.Conns); i++ {
			c, err := l.Accept()
			if err != nil {
				return
			}
			if i == len(sc.Conns)-1 {
				closeListener()
			}
			if tc, ok := c.(*net.TCPConn); ok && sc.SmallBuffers {
				tc.SetReadBuffer(4096)
			}
			pr := &peerRec{conn: c, endT: -1, done: make(chan struct{})}
			peersMu.Lock()
			peers = append(peers, pr)
			peersMu.Unlock()
			idx := i
			lg.add(func(t int) Sx { return L(Sym("acc"), idx, t) })
			pf, pt := 0, 0
			if idx == 0 {
				pf, pt = sc.ReadPauseFrom, sc.ReadPauseTo
			}
			go servePeer(lg, pr, &sc.Conns[i], time.Now(), pf, pt)
		}
	}
	if len(sc.Conns) == 0 {
		l0.Close()
	} else if sc.ListenFrom <= 0 {
		ln = l0
		go acceptLoop(l0)
	} else {
		l0.Close()
		go func() {
			time.Sleep(time.Until(lg.start.Add(time.Duration(sc.ListenFrom) * time.Millisecond)))
			l, err := net.Listen("tcp", addr)
			if err != nil {
				invalid = "relisten"
				return
			}
			lnMu.Lock()
			ln = l
			lnMu.Unlock()
			acceptLoop(l)
		}()
	}

	ctx, cancel := context.WithCancel(context.Background())
	retT, wgT := -1, -1
	if sc.Entry == "detector" {
		c, err := net.Dial("tcp", addr)
		if err != nil {
			invalid = "dial"
		} else {
			res := rwl.AutoDetectIfPanelEncodingIsBinary(c, addr)
			lg.add(func(t int) Sx { return L(Sym("det"), t, res) })
			time.Sleep(time.Until(lg.start.Add(time.Duration(sc.Cancel) * time.Millisecond)))
			c.Close()
		}
		cancel()
	} else {
		var wg sync.WaitGroup
		hookDone := installWriterHook(sc, lg)
		toPanel := make(chan []*rwp.InboundMessage, sc.ToPanelCap)
		fromPanel := make(chan []*rwp.OutboundMessage)
		recvDone := make(chan struct{})
		go func() {
			if sc.RecvFrom > 0 {
				time.Sleep(time.Until(lg.start.Add(time.Duration(sc.RecvFrom) * time.Millisecond)))
			}
			for m := range fromPanel {
				d := canonOut(m)
				lg.add(func(t int) Sx { return L(Sym("dlv"), t, d) })
			}
			close(recvDone)
		}()
		var subWG sync.WaitGroup
		startSubs := func() {
			for _, sub := range sc.Subs {
				subWG.Add(1)
				go func(list []Submission) {
					defer subWG.Done()
					if sc.SharedBacking {
						// one array; every list is a window of it with spare capacity behind it; the windows
						// are NOT handed in in ascending order (0, 2, 1, 4, 3, ...): a list still waiting in
						// the channel lies right behind one that was submitted before it
						win := make([]int, len(list)) // win[k] = index of the list that occupies window k
						for k := range win {
							win[k] = k
						}
						for k := 1; k+1 < len(win); k += 2 {
							win[k], win[k+1] = win[k+1], win[k]
						}
						var all []*rwp.InboundMessage
						off := make([]int, len(list))
						for _, i := range win {
							off[i] = len(all)
							all = append(all, list[i].Msgs...)
						}
						list = append([]Submission(nil), list...)
						for i := range list {
							list[i].Msgs = all[off[i] : off[i]+len(list[i].Msgs)]
						}
					}
					time.Sleep(time.Duration(sc.SubStart) * time.Millisecond)
					var objs []*rwp.InboundMessage // SameObjects: the application's long-lived message objects
					for _, s := range list {
						if s.Delay > 0 {
							time.Sleep(time.Duration(s.Delay) * time.Millisecond)
						}
						if sc.SameObjects {
							for len(objs) < len(s.Msgs) {
								objs = append(objs, &rwp.InboundMessage{})
							}
							for j, m := range s.Msgs {
								proto.Reset(objs[j])
								proto.Merge(objs[j], m)
							}
							s.Msgs = objs[:len(s.Msgs):len(s.Msgs)]
						}
						select {
						case toPanel <- s.Msgs:
						case <-ctx.Done():
							return
						}
					}
				}(sub)
			}
		}
		if sc.FloodKB > 0 { // outbound back-pressure: large states handed in continuously, not part of the case
			subWG.Add(1)
			go func() {
				defer subWG.Done()
				big := &rwp.InboundMessage{States: []*rwp.HWCState{{HWCIDs: []uint32{4242}, HWCGfx: &rwp.HWCGfx{W: 512, H: 512, ImageData: make([]byte, 32768)}}}}
				time.Sleep(time.Duration(sc.SubStart) * time.Millisecond)
				for kb := 0; kb < sc.FloodKB; kb += 32 {
					select {
					case toPanel <- []*rwp.InboundMessage{big}:
					case <-ctx.Done():
						return
					}
				}
			}()
		}
		nConnect := 0
		onconnect := func(e string, bin bool, c net.Conn) {
			lg.add(func(t int) Sx { return L(Sym("con"), t, []byte(e), bin) })
			if tc, ok := c.(*net.TCPConn); ok && sc.SmallBuffers {
				tc.SetWriteBuffer(4096)
			}
			if len(sc.ConnectWrite) > 0 {
				c.Write(sc.ConnectWrite)
			}
			if sc.ConnectSleep > 0 {
				time.Sleep(time.Duration(sc.ConnectSleep) * time.Millisecond)
			}
			if nConnect == sc.SubConn && len(sc.Subs) > 0 {
				startSubs()
			}
			nConnect++
		}
		if sc.SubConn < 0 && len(sc.Subs) > 0 {
			startSubs()
		}
		ondisconnect := func(b bool) { lg.add(func(t int) Sx { return L(Sym("dis"), t, b) }) }
		var cfg *rwl.ConnectToPanelConfig
		if sc.UseCfg {
			cfg = &rwl.ConnectToPanelConfig{NoConnectionRetryPeriod: sc.NoConn, ReConnectionRetryPeriod: sc.ReConn}
		}
		if sc.Cancel <= 0 {
			cancel()
		}
		returned := make(chan struct{})
		go func() {
			defer func() {
				if r := recover(); r != nil {
					lg.add(func(t int) Sx { return L(Sym("panic"), t) })
				}
				close(returned)
			}()
			if sc.NilToPanel {
				rwl.ConnectToPanel(addr, nil, fromPanel, ctx, &wg, onconnect, ondisconnect, cfg)
				return
			}
			rwl.ConnectToPanel(addr, toPanel, fromPanel, ctx, &wg, onconnect, ondisconnect, cfg)
		}()
		wgDone := make(chan struct{})
		startWait := func() {
			go func() {
				wg.Wait()
				t := lg.ms()
				lg.mu.Lock()
				wgT = t
				lg.mu.Unlock()
				close(wgDone)
			}()
		}
		if sc.Cancel > 0 {
			time.Sleep(time.Until(lg.start.Add(time.Duration(sc.Cancel) * time.Millisecond)))
			cancel()
			startWait() // the caller waits for "everything is shut down internally" right after cancelling
		}
		// bounded wait for the return: retry sleep + ASCII EOF sleep + probe window + margin
		re := sc.ReConn
		if re == 0 || !sc.UseCfg {
			re = 1
		}
		grace := time.Duration(re*1000+1000+2000+1500) * time.Millisecond
		select {
		case <-returned:
			retT = lg.ms()
			if sc.Cancel <= 0 {
				startWait()
			}
			select {
			case <-wgDone:
			case <-time.After(time.Duration(1500+sc.HookDelay) * time.Millisecond):
			}
		case <-time.After(grace):
		}
		if hookDone != nil {
			hookDone()
		}
		subWG.Wait()
		if retT >= 0 {
			close(fromPanel)
			<-recvDone
		}
	}
	closeListener()
	// give the peers a moment to see the client's close, then collect
	deadline := time.Now().Add(400 * time.Millisecond)
	peersMu.Lock()
	ps := append([]*peerRec(nil), peers...)
	peersMu.Unlock()
	for _, p := range ps {
		select {
		case <-p.done:
		case <-time.After(time.Until(deadline)):
		}
	}
	lg.mu.Lock()
	ev := append([]Sx(nil), lg.ev...)
	lg.mu.Unlock()
	if retT >= 0 {
		ev = append(ev, L(Sym("ret"), retT))
	}
	lg.mu.Lock()
	wgObs := wgT
	lg.mu.Unlock()
	if wgObs >= 0 {
		ev = append(ev, L(Sym("wg"), wgObs))
	}
	for i, p := range ps {
		lg.mu.Lock()
		ev = append(ev, L(Sym("peer"), i, append([]byte(nil), p.recv...), p.endKind, p.endT))
		lg.mu.Unlock()
		p.conn.Close()
	}
	if invalid != "" {
		ev = append(ev, L(Sym("inv"), Sym(invalid)))
	}
	if sc.MeasureMem {
		var m1 runtime.MemStats
		runtime.ReadMemStats(&m1)
		ev = append(ev, L(Sym("mem"), int(m1.TotalAlloc-m0.TotalAlloc)))
	}
	return ev
}

func servePeer(lg *obsLog, pr *peerRec, cs *ConnScript, base time.Time, pauseFrom, pauseTo int) {
	go func() { // reader: drains everything the client writes, notes how the stream ends
		buf := make([]byte, 65536)
		for {
			if pauseFrom > 0 { // the panel does not read during [pauseFrom, pauseTo) (pauseTo 0: never again)
				now := int(time.Since(base) / time.Millisecond)
				if now >= pauseFrom && (pauseTo == 0 || now < pauseTo) {
					if pauseTo == 0 { // never reads again: how the stream ends cannot be observed on this socket (kind 3)
						lg.mu.Lock()
						pr.endKind = 3
						pr.endT = lg.ms()
						lg.mu.Unlock()
						close(pr.done)
						return
					}
					time.Sleep(time.Until(base.Add(time.Duration(pauseTo) * time.Millisecond)))
				} else if now < pauseFrom {
					pr.conn.SetReadDeadline(base.Add(time.Duration(pauseFrom) * time.Millisecond))
				} else {
					pr.conn.SetReadDeadline(time.Time{})
				}
			}
			n, err := pr.conn.Read(buf)
			if ne, ok := err.(net.Error); ok && ne.Timeout() && pauseFrom > 0 {
				lg.mu.Lock()
				pr.recv = append(pr.recv, buf[:n]...)
				lg.mu.Unlock()
				continue
			}
			lg.mu.Lock()
			pr.recv = append(pr.recv, buf[:n]...)
			if err != nil {
				if err.Error() == "EOF" {
					pr.endKind = 1
				} else {
					pr.endKind = 2
				}
				pr.endT = lg.ms()
			}
			lg.mu.Unlock()
			if err != nil {
				close(pr.done)
				return
			}
		}
	}()
	ts, segs := cs.Segments()
	for i := range segs {
		time.Sleep(time.Until(base.Add(time.Duration(ts[i]) * time.Millisecond)))
		if _, err := pr.conn.Write(segs[i]); err != nil {
			return
		}
	}
	switch cs.End {
	case "close":
		time.Sleep(time.Until(base.Add(time.Duration(cs.EndT) * time.Millisecond)))
		if tc, ok := pr.conn.(*net.TCPConn); ok {
			tc.CloseWrite() // FIN; keep reading so that no RST is provoked
		}
	case "fullclose":
		time.Sleep(time.Until(base.Add(time.Duration(cs.EndT) * time.Millisecond)))
		pr.conn.Close()
	case "reset":
		time.Sleep(time.Until(base.Add(time.Duration(cs.EndT) * time.Millisecond)))
		if tc, ok := pr.conn.(*net.TCPConn); ok {
			tc.SetLinger(0)
			tc.Close()
		}
	}
}

// ---------- case text ----------
func (sc *Scenario) inputSx() []Sx {
	var conns []Sx
	orc := map[string][]Sx{}
	addA := func(line []byte) {
		tr := strings.TrimSpace(string(line))
		if _, ok := orc["a"+tr]; !ok && len(tr) < 400000 {
			orc["a"+tr] = L(Sym("a"), []byte(tr), oracleDecode(tr))
		}
	}
	addLines := func(s []byte) {
		for {
			i := bytes.IndexByte(s, '\n')
			if i < 0 {
				return
			}
			addA(s[:i+1])
			s = s[i+1:]
		}
	}
	addFrames := func(s []byte) {
		for len(s) >= 4 {
			n := int(binary.LittleEndian.Uint32(s))
			if n > len(s)-4 {
				return
			}
			p := s[4 : 4+n]
			if _, ok := orc["b"+string(p)]; !ok && n < 100000 {
				orc["b"+string(p)] = L(Sym("b"), append([]byte(nil), p...), oracleUnmarshal(p))
			}
			s = s[4+n:]
		}
	}
	for ci := range sc.Conns {
		c := &sc.Conns[ci]
		var items, segs []Sx
		for _, it := range c.Items {
			switch it.Kind {
			case "f":
				items = append(items, L(Sym("f"), it.Data.Sx()))
				d := it.Data.Bytes()
				orc["b"+string(d)] = L(Sym("b"), it.Data.Sx(), oracleUnmarshal(d))
			case "ln":
				items = append(items, L(Sym("ln"), it.Data.Sx(), it.Eol))
				if d := it.Data.Bytes(); strings.TrimSpace(string(it.Encode())) == string(d) && len(d) >= 1000 {
					orc["a"+string(d)] = L(Sym("a"), it.Data.Sx(), oracleDecode(string(d)))
				}
			default:
				items = append(items, L(Sym("raw"), it.Data.Sx()))
			}
		}
		// values of the two external functions on everything the client could possibly hand
		// them: every line and every length-prefixed payload of the stream, read from its
		// start and from the end of the first segment (which the probe read consumes)
		st := c.Stream()
		_, sg := c.Segments()
		if len(st) < 1500000 {
			addLines(st)
			addFrames(st)
			if len(sg) > 0 {
				addLines(st[len(sg[0]):])
				addFrames(st[len(sg[0]):])
			}
		}
		for _, s := range c.Segs {
			segs = append(segs, L(s.T, s.N))
		}
		conns = append(conns, L(Sym("c"), items, segs, L(Sym(c.End), c.EndT)))
	}
	var keys []string
	for k := range orc {
		keys = append(keys, k)
	}
	sort.Strings(keys)
	ol := []Sx{Sym("orc")}
	for _, k := range keys {
		ol = append(ol, orc[k])
	}
	var subs []Sx
	for _, s := range sc.Subs {
		var one []Sx
		for _, sub := range s {
			var ms []Sx
			for _, m := range sub.Msgs {
				b, _ := proto.Marshal(m)
				ms = append(ms, L(canonIn(m), b))
			}
			var lines []Sx
			for _, l := range rwl.InboundMessagesToRawPanelASCIIstrings(sub.Msgs) {
				lines = append(lines, []byte(l))
			}
			one = append(one, L(Sym("s"), ms, lines, sub.Delay))
		}
		subs = append(subs, one)
	}
	return []Sx{
		L(Sym("cfg"), Sym(sc.Entry), sc.UseCfg, sc.NoConn, sc.ReConn, sc.ListenFrom, sc.Cancel, sc.Sensitive, sc.RecvFrom, sc.SubConn, sc.ConnectSleep, sc.ConnectWrite, sc.HookDelay),
		conns, ol, L(Sym("subs"), sc.SubStart, subs),
	}
}

// oracle entries for what the peer received after the negotiation bytes: every frame payload
// found there by a plain length-prefix walk, with the digest of the message it decodes to
func receivedOracle(ev []Sx) Sx {
	ol := []Sx{Sym("rorc")}
	seen := map[string]bool{}
	for _, e := range ev {
		l, ok := e.([]Sx)
		if !ok || len(l) < 3 || l[0] != Sym("peer") {
			continue
		}
		b := l[2].([]byte)
		if len(b) >= 6 {
			b = b[6:]
		}
		for len(b) >= 4 {
			n := int(binary.LittleEndian.Uint32(b))
			if n > len(b)-4 {
				break
			}
			p := b[4 : 4+n]
			if !seen[string(p)] {
				seen[string(p)] = true
				m := &rwp.InboundMessage{}
				if proto.Unmarshal(p, m) == nil {
					ol = append(ol, L(append([]byte(nil), p...), canonIn(m)))
				}
			}
			b = b[4+n:]
		}
	}
	return ol
}

func (sc *Scenario) caseSx(ev []Sx) Sx {
	in := sc.inputSx()
	id := sc.ID
	if !strings.Contains(id, sc.knobSuffix()) {
		id += sc.knobSuffix()
	}
	out := []Sx{Sym("scn"), Sym(id)}
	out = append(out, in...)
	if len(sc.Subs) > 0 {
		out = append(out, receivedOracle(ev))
	} else {
		out = append(out, L(Sym("rorc")))
	}
	out = append(out, append([]Sx{Sym("obs")}, ev...))
	return out
}

func parseScenario(line string) *Scenario {
	n := parseSexp(line)
	if n == nil || !n.IsList || len(n.Kids) < 6 || n.Kids[0].Atom != "scn" {
		return nil
	}
	sc := &Scenario{ID: n.Kids[1].Atom}
	sc.MeasureMem = strings.Contains(sc.ID, "-mem-")
	sc.parseKnobs()
	cfg := n.Kids[2].Kids
	sc.Entry = cfg[1].Atom
	sc.UseCfg = cfg[2].Bool()
	sc.NoConn, sc.ReConn, sc.ListenFrom, sc.Cancel = cfg[3].Int(), cfg[4].Int(), cfg[5].Int(), cfg[6].Int()
	sc.Sensitive = cfg[7].Bool()
	if len(cfg) > 8 {
		sc.RecvFrom = cfg[8].Int()
	}
	if len(cfg) > 11 {
		sc.SubConn, sc.ConnectSleep, sc.ConnectWrite = cfg[9].Int(), cfg[10].Int(), cfg[11].Bytes()
	}
	if len(cfg) > 12 {
		sc.HookDelay = cfg[12].Int()
	}
	for _, c := range n.Kids[3].Kids {
		var cs ConnScript
		for _, it := range c.Kids[1].Kids {
			x := Item{Kind: it.Kids[0].Atom, Data: parseBs(it.Kids[1])}
			if x.Kind == "ln" {
				x.Eol = it.Kids[2].Int()
			}
			cs.Items = append(cs.Items, x)
		}
		for _, s := range c.Kids[2].Kids {
			cs.Segs = append(cs.Segs, SegCut{s.Kids[0].Int(), s.Kids[1].Int()})
		}
		cs.End = c.Kids[3].Kids[0].Atom
		cs.EndT = c.Kids[3].Kids[1].Int()
		sc.Conns = append(sc.Conns, cs)
	}
	su := n.Kids[5]
	sc.SubStart = su.Kids[1].Int()
	for _, s := range su.Kids[2].Kids {
		var one []Submission
		for _, sub := range s.Kids {
			var sb Submission
			for _, m := range sub.Kids[1].Kids {
				msg := &rwp.InboundMessage{}
				proto.Unmarshal(m.Kids[1].Bytes(), msg)
				sb.Msgs = append(sb.Msgs, msg)
			}
			if len(sub.Kids) > 3 {
				sb.Delay = sub.Kids[3].Int()
			}
			one = append(one, sb)
		}
		sc.Subs = append(sc.Subs, one)
	}
	return sc
}

// ---------- judging through the extracted model (only to decide about re-runs) ----------
var driverPath string

func findDriver(prop string) {
	exe, err := os.Executable()
	if err != nil {
		return
	}
	p := filepath.Join(filepath.Dir(exe), "..", "..", "ocaml", "build", prop, "run")
	if _, err := os.Stat(p); err == nil {
		driverPath = p
	}
}

// returns "" when the model and the spec accept the case, else the verdict text
func askModel(caseLine string) string {
	if driverPath == "" {
		return ""
	}
	cmd := exec.Command(driverPath)
	cmd.Stdin = strings.NewReader(caseLine + "\n")
	outb, err := cmd.Output()
	if err != nil {
		return ""
	}
	for _, l := range strings.Split(string(outb), "\n") {
		if strings.HasPrefix(l, "FAIL\t") {
			parts := strings.SplitN(l, "\t", 3)
			return parts[1]
		}
	}
	return ""
}

func sxString(v Sx) string {
	var b strings.Builder
	sx(&b, v)
	return b.String()
}

// A timing-class disagreement (verdict tag starting with "timing", or any disagreement of a
// scenario whose outcome hinges on a margin below the comparison tolerance) is re-run alone,
// up to two more times, before it counts.  Content, order and multiplicity disagreements of
// ordinary scenarios count at once.
func isTimingVerdict(v string) bool {
	return strings.Contains(v, "timing") || strings.Contains(v, "(inv")
}

var rerunCount, rerunRescued int

func runBatch(scs []*Scenario, par int) {
	type res struct {
		line string
		verd string
	}
	results := make([]res, len(scs))
	sem := make(chan struct{}, par)
	var wg sync.WaitGroup
	for i := range scs { // memory-measuring scenarios run alone
		if scs[i].MeasureMem || scs[i].HookDelay > 0 || scs[i].Alone {
			ev := runScenario(scs[i])
			results[i].line = sxString(scs[i].caseSx(ev))
		}
	}
	for i := range scs {
		if scs[i].MeasureMem || scs[i].HookDelay > 0 || scs[i].Alone {
			continue
		}
		wg.Add(1)
		sem <- struct{}{}
		go func(i int) {
			defer wg.Done()
			defer func() { <-sem }()
			ev := runScenario(scs[i])
			results[i].line = sxString(scs[i].caseSx(ev))
		}(i)
	}
	wg.Wait()
	// model verdicts (parallel, cheap), then serial re-runs where allowed
	var wg2 sync.WaitGroup
	for i := range scs {
		wg2.Add(1)
		sem <- struct{}{}
		go func(i int) {
			defer wg2.Done()
			defer func() { <-sem }()
			results[i].verd = askModel(results[i].line)
		}(i)
	}
	wg2.Wait()
	// re-runs: at most the first 5 disagreeing scenarios that qualify, concurrently with each
	// other (nothing else is running then), up to two more times each
	var again []int
	for i := range scs {
		v := results[i].verd
		if v != "" && (isTimingVerdict(v) || scs[i].Sensitive) && len(again) < 12 {
			again = append(again, i)
		}
	}
	var wg3 sync.WaitGroup
	var mu sync.Mutex
	for _, i := range again {
		wg3.Add(1)
		go func(i int) {
			defer wg3.Done()
			v := results[i].verd
			for k := 0; k < 2 && v != ""; k++ {
				mu.Lock()
				rerunCount++
				mu.Unlock()
				ev := runScenario(scs[i])
				line := sxString(scs[i].caseSx(ev))
				v = askModel(line)
				results[i].line = line
			}
			if v == "" {
				mu.Lock()
				rerunRescued++
				mu.Unlock()
			}
		}(i)
	}
	wg3.Wait()
	for i := range scs {
		out.WriteString(results[i].line + "\n")
	}
	out.Flush()
}

func replayScenario(line string) {
	sc := parseScenario(line)
	if sc == nil {
		fmt.Fprintln(os.Stderr, "cannot parse scenario")
		return
	}
	ev := runScenario(sc)
	emit(sc.caseSx(ev))
}

// A panic in a goroutine the library starts itself (the writer goroutine) cannot be recovered
// and kills the process.  So that such a misbehaviour still comes out as an observation the
// oracle can judge - never as a silently truncated case stream - the generators run in a child
// process; if it dies, the parent emits one case holding a `panic` observation.
func runInChild() bool {
	if os.Getenv("VERIF_NET_CHILD") != "" {
		return false
	}
	exe, err := os.Executable()
	if err != nil {
		return false
	}
	out.Flush()
	cmd := exec.Command(exe, os.Args[1:]...)
	cmd.Env = append(os.Environ(), "VERIF_NET_CHILD=1")
	cmd.Stdout = caseOut
	var eb strings.Builder
	cmd.Stderr = &eb
	if err := cmd.Run(); err != nil {
		tail := eb.String()
		if len(tail) > 3000 {
			tail = tail[:3000]
		}
		fmt.Fprintln(os.Stderr, "harness child died:", err, tail)
		fmt.Fprintln(caseOut, "(scn harness-child-died (cfg client 0 0 0 0 0 0 0 0 0 # 0) () (orc) (subs 0 ()) (rorc) (obs (panic 0)))")
	}
	return true
}
