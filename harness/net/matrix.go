package main

// Histories of SEVERAL connections of one ConnectToPanel call in which the panel changes its
// behaviour from one connection to the next (seeds C09-6, C12-5, C11-6: negotiation state hoisted
// out of the reconnect loop, a shorter probe window after an ASCII session, a connect without its
// disconnect after an ErrorMsg reply).  Every ordered pair of connection kinds, plus a few triples:
// what is negotiated, delivered, written and reported on a connection depends on THAT connection only.

import (
	"fmt"

	rwp "github.com/SKAARHOJ/rawpanel-lib/ibeam_rawpanel"
)

type connKind struct {
	name  string
	greet []Item // what the panel answers to the probe
	d     int    // ms after accept at which the answer is written
	asc   bool   // the mode the client must negotiate
	t0    int    // ms after accept at which negotiation is over (d, or the 2 s window for silence)
}

func connKinds() []connKind {
	return []connKind{
		{"ack0", []Item{ackItem()}, 0, false, 0},
		{"ack1200", []Item{ackItem()}, 1200, false, 1200},
		{"rdy", []Item{textItem("RDY\n")}, 0, true, 0},
		{"map", []Item{textItem("map=1:5\n")}, 0, true, 0},
		{"silence", nil, 0, true, 2000},
		{"err", []Item{textItem("ErrorMsg=Panel is busy\n")}, 0, true, 0},
		{"text", []Item{textItem("nack\n")}, 0, true, 0},
	}
}

// ms after negotiation at which the connection's one event is sent (after a silent probe window the
// event must be clearly later than the window's end, or it could be taken for a late answer)
func (k connKind) traffic() int {
	if len(k.greet) == 0 {
		return 400
	}
	return 100
}

// one connection of this kind: the answer to the probe, then one event 100 ms after negotiation;
// closeAfter > 0: the panel closes the connection that many ms after negotiation.
// Returns the script and the time (ms after accept) of the close (0 = stays open).
func (k connKind) script(id uint32, closeAfter int) (ConnScript, int) {
	cs := ConnScript{End: "none"}
	n := 0
	for _, it := range k.greet {
		cs.Items = append(cs.Items, it)
		n += len(it.Encode())
	}
	if n > 0 {
		cs.Segs = append(cs.Segs, SegCut{k.d, n})
	}
	var ev Item
	if k.asc {
		ev = ascLine(fmt.Sprintf("HWC#%d=Down", id))
	} else {
		ev = Item{Kind: "f", Data: Lit(evMsg(id, true))}
	}
	cs.Items = append(cs.Items, ev)
	cs.Segs = append(cs.Segs, SegCut{k.t0 + k.traffic(), len(ev.Encode())})
	closeT := 0
	if closeAfter > 0 {
		closeT = k.t0 + closeAfter
		cs.End, cs.EndT = "close", closeT
	}
	return cs, closeT
}

// ms between the accept of a connection that the panel closes at closeT and the next dial:
// binary: disconnect at closeT, redial after the 1 s reconnection period; ASCII (FIN): the read loop
// sleeps 1 s on EOF before it reports the disconnect, then the 1 s period
func (k connKind) redialAfter(closeT int) int {
	if k.asc {
		return closeT + 2000
	}
	return closeT + 1000
}

// withSubs: a submitter hands 6 single-message lists to the client 100 ms after the LAST onconnect
func matrixScenarios(tier string, withSubs bool) []*Scenario {
	kinds := connKinds()
	var res []*Scenario
	mk := func(seq []connKind) *Scenario {
		sc := &Scenario{Entry: "client"}
		name := "matrix"
		at := 0 // accept time of the current connection
		crit := []int{}
		for i, k := range seq {
			name += "-" + k.name
			last := i == len(seq)-1
			ca := 250 + k.traffic() - 100
			if last {
				ca = 0
			}
			cs, closeT := k.script(uint32(10*(i+1)+1), ca)
			sc.Conns = append(sc.Conns, cs)
			crit = append(crit, at, at+k.d, at+k.t0, at+k.t0+k.traffic(), at+2000)
			if !last {
				crit = append(crit, at+closeT, at+closeT+1000, at+closeT+2000)
				at += k.redialAfter(closeT)
			} else {
				at += k.t0 + k.traffic()
			}
		}
		base := at + 700
		if withSubs {
			sc.SubConn = len(seq) - 1
			sc.SubStart = 100
			var list []Submission
			for j := 0; j < 6; j++ {
				m := &rwp.InboundMessage{States: []*rwp.HWCState{{HWCIDs: []uint32{uint32(700 + j)}, HWCMode: &rwp.HWCMode{State: rwp.HWCMode_StateE(1 + j%4)}}}}
				list = append(list, Submission{Msgs: []*rwp.InboundMessage{m}})
			}
			sc.Subs = [][]Submission{list}
			base += 300
		}
		sc.Cancel = pickCancel(base, crit, 450)
		sc.ID = name
		// long multi-connection histories with a dozen timed events each: on a loaded machine one late
		// wake-up shifts everything behind it; a disagreement is re-run alone (up to two more times)
		// before it counts - a real change of behaviour disagrees every time
		sc.Sensitive = true
		return sc
	}
	for i, a := range kinds {
		for j, b := range kinds {
			if tier == "quick" && a.asc == b.asc && a.name != b.name && (i+j)%2 == 1 {
				continue // quick: every mode-changing pair, every kind followed by itself, half of the rest
			}
			res = append(res, mk([]connKind{a, b}))
		}
	}
	byName := map[string]connKind{}
	for _, k := range kinds {
		byName[k.name] = k
	}
	for _, tr := range [][3]string{{"rdy", "ack0", "rdy"}, {"ack0", "silence", "ack1200"}, {"err", "ack1200", "rdy"}, {"silence", "ack0", "err"}} {
		res = append(res, mk([]connKind{byName[tr[0]], byName[tr[1]], byName[tr[2]]}))
	}
	return res
}
