package main

import (
	"encoding/binary"
	"fmt"

	rwp "github.com/SKAARHOJ/rawpanel-lib/ibeam_rawpanel"
)

func init() {
	props["C10"] = genC10
	replays["C10"] = replayScenario
}

func hdr(v uint32) []byte {
	h := make([]byte, 4)
	binary.LittleEndian.PutUint32(h, v)
	return h
}

func goodConn(ids ...uint32) ConnScript { // a healthy connection used after a reconnect
	cs := ConnScript{Items: []Item{ackItem()}, Segs: []SegCut{{0, 6}}, End: "none"}
	for i, id := range ids {
		it := Item{Kind: "f", Data: Lit(evMsg(id, true))}
		cs.Items = append(cs.Items, it)
		cs.Segs = append(cs.Segs, SegCut{100 + 50*i, len(it.Encode())})
	}
	return cs
}

func genC10(tier string, rng *Rng) {
	if runInChild() {
		return
	}
	findDriver("C10")
	var scs []*Scenario
	hist := map[string]int{}
	add := func(kind string, cancel int, mem bool, conns ...ConnScript) {
		sc := &Scenario{ID: fmt.Sprintf("%s-%d", kind, len(scs)), Entry: "client", Conns: conns, Cancel: cancel, MeasureMem: mem}
		scs = append(scs, sc)
		hist[kind]++
	}
	good := func(id uint32) Item { return Item{Kind: "f", Data: Lit(evMsg(id, true))} }
	gl := len(good(1).Encode())

	// ---- length prefix at or above the limit, after k good frames; the bytes after it are
	// valid frames that must not be delivered; then reconnect and normal service
	bounds := []uint32{500000, 500001, 1 << 20, 1<<31 - 1, 1 << 31, 1<<32 - 1}
	if tier == "thorough" {
		bounds = append(bounds, 500002, 1<<24, 0x01000000, 0x80000001, 0xfffffffe, 0x00ffffff, 1<<16*8)
	}
	for _, v := range bounds {
		for k := 0; k <= 2; k++ {
			if tier == "quick" && k == 1 {
				continue
			}
			cs := ConnScript{Items: []Item{ackItem()}, Segs: []SegCut{{0, 6}}, End: "none"}
			for i := 0; i < k; i++ {
				cs.Items = append(cs.Items, good(uint32(10+i)))
				cs.Segs = append(cs.Segs, SegCut{80 + 40*i, gl})
			}
			cs.Items = append(cs.Items, Item{Kind: "raw", Data: Lit(hdr(v))}, good(77), good(78))
			cs.Segs = append(cs.Segs, SegCut{300, 4 + 2*gl})
			// drop at 300, reconnect at 1300, frame at 1400, cancel at 1900
			add("over-limit", 1900, false, cs, goodConn(1, 2))
		}
		// allocation measured with nothing else running
		cs := ConnScript{Items: []Item{ackItem(), good(3), {Kind: "raw", Data: Lit(hdr(v))}, good(77)}, Segs: []SegCut{{0, 6}, {60, gl}, {150, 4 + gl}}, End: "none"}
		add("over-limit-mem", 650, true, cs)
	}
	// ---- over-limit prefixes that LOOK like something: four bytes of text (the start of an ASCII line, blanks,
	// line ends, digits), four identical bytes, a prefix that is a valid small frame when read big-endian; each
	// followed by more text / frames that must not be delivered (seed C10-13: an all-printable prefix made the
	// client "fall back" to ASCII mode and deliver the rest of the stream as lines)
	for _, h4 := range []string{"HWC#", "list", "ping", "    ", "\r\n\r\n", "1234", "map=", "~~~~", "\x00\x00\x00\x7f", "\x7f\x7f\x7f\x7f", "ack\n", "{\"HW"} {
		tail := "12=Down\nHWC#13=Up\nlist\nping\n"
		cs := ConnScript{Items: []Item{ackItem(), good(3), {Kind: "raw", Data: Lit([]byte(h4 + tail))}, good(77)}, Segs: []SegCut{{0, 6}, {60, gl}, {300, 4 + len(tail) + gl}}, End: "none"}
		add("over-limit-text", 1900, false, cs, goodConn(1, 2))
	}
	// ---- the panel does not stop talking after the fault: junk every 10-40 ms for 3 s behind an over-limit
	// prefix / behind the start of a frame that then stalls forever is impossible (it would complete it), so:
	// behind an over-limit prefix, and behind a frame whose length says 400000 and whose payload dribbles in
	// too slowly to complete within 2 s.  The drop must be as prompt as ever (seed C10-14: the teardown drained
	// the socket "until it is quiet for 100 ms" before closing it)
	for _, kind := range []string{"over", "slow-payload"} {
		cs := ConnScript{Items: []Item{ackItem(), good(3)}, Segs: []SegCut{{0, 6}, {60, gl}}, End: "none"}
		junk := make([]byte, 200)
		for i := range junk {
			junk[i] = byte(0x80 + i%50)
		}
		dropAt := 300
		if kind == "over" {
			cs.Items = append(cs.Items, Item{Kind: "raw", Data: Lit(hdr(500000))})
			cs.Segs = append(cs.Segs, SegCut{300, 4})
		} else {
			cs.Items = append(cs.Items, Item{Kind: "raw", Data: Lit(hdr(400000))})
			cs.Segs = append(cs.Segs, SegCut{300, 4})
			dropAt = 2300
		}
		for t := 320; t < dropAt+3000; t += 10 + (t/10)%4*10 {
			cs.Items = append(cs.Items, Item{Kind: "raw", Data: Lit(junk)})
			cs.Segs = append(cs.Segs, SegCut{t, len(junk)})
		}
		// drop at dropAt, reconnect 1 s later, service there, cancel
		add("talks-on-after-fault-"+kind, dropAt+1000+700, false, cs, goodConn(1, 2))
	}
	// ---- the fault coincides with OUTBOUND back-pressure: the panel has stopped reading, the
	// application keeps handing in large states (the writer goroutine is blocked inside conn.Write);
	// then an over-limit prefix / a frame that stalls in its payload arrives.  The connection must be
	// dropped as promptly as ever (only closing the socket frees the writer) and a reconnect follow
	// (seed C10-8: teardown that joins the writer BEFORE closing the socket never gets there)
	for _, fault := range []string{"over", "stall"} {
		cs := ConnScript{Items: []Item{ackItem(), good(3)}, Segs: []SegCut{{0, 6}, {60, gl}}, End: "none"}
		cancel := 0
		if fault == "over" {
			cs.Items = append(cs.Items, Item{Kind: "raw", Data: Lit(hdr(500000))}, good(77))
			cs.Segs = append(cs.Segs, SegCut{900, 4 + gl})
			cancel = 900 + 1000 + 700 // drop at 900, reconnect 1900
		} else {
			cs.Items = append(cs.Items, Item{Kind: "raw", Data: Lit(append(hdr(100), 1, 2, 3, 4, 5, 6, 7, 8, 9, 10))})
			cs.Segs = append(cs.Segs, SegCut{900, 14})
			cancel = 900 + 2000 + 1000 + 700 // payload deadline 2900, reconnect 3900
		}
		sc := &Scenario{ID: fmt.Sprintf("backpressure-%s-%d", fault, len(scs)), Entry: "client", Conns: []ConnScript{cs, goodConn(1, 2)}, Cancel: cancel,
			ReadPauseFrom: 150, ReadPauseTo: 0, FloodKB: 16384, SubStart: 200,
			Subs: [][]Submission{{{Msgs: []*rwp.InboundMessage{{FlowMessage: rwp.InboundMessage_PING}}}}}}
		scs = append(scs, sc)
		hist["backpressure"]++
	}
	// ---- a stall inside a frame WHILE the application writes to the panel: the 2 s limit holds whatever the
	// writer does to the socket in the meantime (seed C10-9: a write timeout set and cleared with
	// SetDeadline wipes the read deadline the reader armed for the frame in progress)
	for _, k := range []int{2, 9} { // stalled inside the header / inside the payload
		whole := append(hdr(20), 8, 1, 8, 1, 8)
		cs := ConnScript{Items: []Item{ackItem(), good(3), {Kind: "raw", Data: Lit(whole[:k])}}, Segs: []SegCut{{0, 6}, {60, gl}, {300, k}}, End: "none"}
		var list []Submission
		for j := 0; j < 6; j++ {
			list = append(list, Submission{Msgs: []*rwp.InboundMessage{{FlowMessage: rwp.InboundMessage_PING}}, Delay: 300})
		}
		// stall from 300: drop at 2300, reconnect 3300; submissions at 600..2100
		sc := &Scenario{ID: fmt.Sprintf("stall-while-writing-%d-%d", k, len(scs)), Entry: "client", Conns: []ConnScript{cs, goodConn(1)}, Cancel: 3300 + 700,
			SubStart: 300, Subs: [][]Submission{list}}
		scs = append(scs, sc)
		hist["stall-while-writing"]++
	}
	// just below the limit: accepted (allocation), then the payload stalls
	for _, v := range []uint32{499999, 499998, 70000} {
		cs := ConnScript{Items: []Item{ackItem(), good(3), {Kind: "raw", Data: Lit(hdr(v))}, good(77)}, Segs: []SegCut{{0, 6}, {60, gl}, {150, 4 + gl}}, End: "none"}
		// payload deadline 150+2000; reconnect 3150; cancel 3700
		add("below-limit-stall", 3700, false, cs, goodConn(1))
	}

	// ---- truncation after k bytes of a frame for every k, a 2.4 s stall, then the rest and
	// a further good frame (none of which may be delivered); or a close instead of more bytes
	victim := good(9)
	vb := victim.Encode()
	for k := 1; k < len(vb); k++ {
		for variant := 0; variant < 2; variant++ {
			if tier == "quick" && variant == 1 && k%3 != 1 {
				continue
			}
			cs := ConnScript{Items: []Item{ackItem(), good(1), victim, good(2)}, End: "none"}
			cs.Segs = []SegCut{{0, 6}, {50, gl}, {100, k}, {2500, len(vb) - k + gl}}
			if variant == 1 { // the panel goes away 2.4 s into the stall instead
				cs.Items = []Item{ackItem(), good(1), {Kind: "raw", Data: Lit(vb[:k])}}
				cs.Segs = []SegCut{{0, 6}, {50, gl}, {100, k}}
				cs.End = "close"
				cs.EndT = 2500
			}
			kind := "stall-payload"
			if k < 4 {
				kind = "stall-header"
			}
			// fault at 2100, reconnect 3100, cancel 3700
			add(kind, 3700, false, cs, goodConn(4))
		}
	}

	// ---- payloads of correct length that are empty or not valid protobuf: stream stays in step
	njunk := 24
	if tier == "thorough" {
		njunk = 200
	}
	for j := 0; j < njunk; j++ {
		cs := ConnScript{Items: []Item{ackItem()}, Segs: []SegCut{{0, 6}}, End: "none"}
		t := 60
		n := rng.Range(2, 6)
		for i := 0; i < n; i++ {
			var it Item
			switch rng.Intn(4) {
			case 0:
				it = good(uint32(rng.Range(1, 200)))
			case 1:
				it = Item{Kind: "f", Data: Lit(nil)}
			case 2:
				it = Item{Kind: "f", Data: Lit(rng.Bytes(rng.Range(1, 200)))}
			default: // a valid message with one byte flipped / cut short
				p := append([]byte(nil), randOutPayload(rng)...)
				if len(p) > 0 {
					if rng.Bool() {
						p[rng.Intn(len(p))] ^= byte(1 << uint(rng.Intn(8)))
					} else {
						p = p[:rng.Intn(len(p))]
					}
				}
				it = Item{Kind: "f", Data: Lit(p)}
			}
			cs.Items = append(cs.Items, it)
			cs.Segs = append(cs.Segs, SegCut{t, len(it.Encode())})
			t += rng.Pick([]int{0, 10, 30})
		}
		cs.Items = append(cs.Items, good(250))
		cs.Segs = append(cs.Segs, SegCut{t + 10, gl})
		add("junk-payload", t+600, false, cs)
	}

	// ---- junk payloads of sizes around every power of two from 2^8 to 2^16 (n-4 .. n+1) and of
	// large sizes, the large ones as the FIRST frame of a fresh connection; after each a valid
	// frame that must be delivered
	{
		var sweep []int
		for e := 8; e <= 16; e++ {
			for d := -4; d <= 1; d++ {
				sweep = append(sweep, 1<<uint(e)+d)
			}
		}
		var items []Item
		sum := 0
		flushJ := func() {
			if len(items) == 0 {
				return
			}
			cs := ConnScript{Items: append([]Item{ackItem()}, items...), End: "none", Segs: []SegCut{{0, 6}}}
			for i, it := range items {
				cs.Segs = append(cs.Segs, SegCut{300 + 10*i, len(it.Encode())})
			}
			add("junk-size-sweep", 300+10*len(items)+700, false, cs)
			items, sum = nil, 0
		}
		for _, n := range sweep {
			if sum+n > 300000 {
				flushJ()
			}
			var d Bs
			if n <= 4096 {
				d = Lit(rng.Bytes(n))
			} else {
				d = Bs{{Lit: rng.Bytes(16)}, {N: n - 16, C: byte(0x80 + rng.Intn(100))}}
			}
			items = append(items, Item{Kind: "f", Data: d}, good(uint32(1+len(items))))
			sum += n
		}
		flushJ()
		big := []int{131068, 131072, 131073, 150000, 196608, 196609, 262144, 262145, 300000, 327680, 393217, 458752, 499999}
		if tier == "quick" {
			big = []int{131073, 150000, 196608, 262145, 300000, 393217, 458752, 499999}
		}
		for _, n := range big {
			junk := Item{Kind: "f", Data: Bs{{Lit: rng.Bytes(16)}, {N: n - 16, C: byte(0x80 + rng.Intn(100))}}}
			valid := Item{Kind: "f", Data: payloadOfSize(n/2 + 7)}
			cs := ConnScript{Items: []Item{ackItem(), junk, good(5), valid, good(6)}, End: "none"}
			cs.Segs = []SegCut{{0, 6}, {300, len(junk.Encode())}, {340, gl}, {380, len(valid.Encode())}, {420, gl}}
			add("junk-large-first", 1100, false, cs)
		}
	}

	// ---- truncation after k bytes of a frame, then the panel half-closes (FIN, socket held open)
	// or closes: nothing of the broken frame may be delivered; disconnect, reconnect, service
	for k := 1; k < len(vb); k++ {
		for _, end := range []string{"close", "fullclose"} {
			if tier == "quick" && end == "fullclose" && k%3 != 1 {
				continue
			}
			cs := ConnScript{Items: []Item{ackItem(), good(1), {Kind: "raw", Data: Lit(vb[:k])}}, Segs: []SegCut{{0, 6}, {250, gl}, {300, k}}, End: end, EndT: 600}
			// EOF at 600 -> disconnect 600, reconnect 1600, cancel 2300
			add("truncated-then-"+end, 2300, false, cs, goodConn(4))
		}
	}

	// ---- an empty payload, then an idle period longer than the in-frame timeout, then frames:
	// the connection must still be up and in step
	{
		e := Item{Kind: "f", Data: Lit(nil)}
		cs := ConnScript{Items: []Item{ackItem(), good(1), e, good(2), e, e, good(3)}, End: "none"}
		cs.Segs = []SegCut{{0, 6}, {100, gl + 4}, {2700, gl + 4}, {2750, 2}, {2800, 2}, {5400, gl}}
		add("empty-then-idle", 5900, false, cs)
		cs2 := ConnScript{Items: []Item{ackItem(), e, good(4)}, End: "none", Segs: []SegCut{{0, 6}, {100, 4}, {2600, gl}}}
		add("empty-then-idle", 3100, false, cs2)
	}

	// ---- combinations across reconnects: limit, then payload stall, then header stall, then service
	{
		c1 := ConnScript{Items: []Item{ackItem(), good(1), {Kind: "raw", Data: Lit(hdr(1 << 31))}, good(70)}, Segs: []SegCut{{0, 6}, {50, gl}, {200, 4 + gl}}, End: "none"}
		c2 := ConnScript{Items: []Item{ackItem(), good(2), {Kind: "raw", Data: Lit(vb[:7])}}, Segs: []SegCut{{0, 6}, {50, gl}, {100, 7}}, End: "none"}
		c3 := ConnScript{Items: []Item{ackItem(), {Kind: "raw", Data: Lit(vb[:2])}}, Segs: []SegCut{{0, 6}, {100, 2}}, End: "none"}
		// c1 drops at 200; c2 accepted 1200, drops 1200+2100=3300; c3 accepted 4300, drops 4300+2100=6400; c4 7400
		add("combo", 8100, false, c1, c2, c3, goodConn(5, 6))
		if tier == "thorough" {
			sc := &Scenario{ID: "combo-cfg", Entry: "client", UseCfg: true, ReConn: 2, Conns: []ConnScript{c1, c2, goodConn(5)}, Cancel: 200 + 2000 + 2100 + 2000 + 700}
			scs = append(scs, sc)
			hist["combo"]++
		}
	}
	meta(map[string]interface{}{"c10_scenarios_by_kind": hist, "header_values": bounds, "scenarios": len(scs)})
	runBatch(scs, 64)
	meta(map[string]interface{}{"reruns": rerunCount, "reruns_rescued": rerunRescued})
}
