//go:build !verif

package main

func installWriterHook(sc *Scenario, lg *obsLog) func() { return nil }
