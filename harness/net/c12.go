package main

import (
	"fmt"

	rwp "github.com/SKAARHOJ/rawpanel-lib/ibeam_rawpanel"
	"google.golang.org/protobuf/proto"
)

func init() {
	props["C12"] = genC12
	replays["C12"] = replayScenario
}

func mustMarshal(m proto.Message) []byte {
	b, err := proto.Marshal(m)
	if err != nil {
		panic(err)
	}
	return b
}

var ackPayload = mustMarshal(&rwp.OutboundMessage{FlowMessage: rwp.OutboundMessage_ACK})

// first cancel instant >= base that keeps `margin` ms away from every critical instant
func pickCancel(base int, crit []int, margin int) int {
	c := base
	for {
		ok := true
		for _, k := range crit {
			d := c - k
			if d < 0 {
				d = -d
			}
			if d < margin {
				ok = false
			}
		}
		if ok {
			return c
		}
		c += 50
	}
}

type replyClass struct {
	name  string
	items []Item
}

func textItem(s string) Item { // a text reply; written as a line item when it ends in LF
	if len(s) > 0 && s[len(s)-1] == '\n' {
		return Item{Kind: "ln", Data: Lit([]byte(s[:len(s)-1]))}
	}
	return Item{Kind: "raw", Data: Lit([]byte(s))}
}

func genC12(tier string, rng *Rng) {
	if runInChild() {
		return
	}
	findDriver("C12")
	info := mustMarshal(&rwp.OutboundMessage{PanelInfo: &rwp.PanelInfo{Model: "SK_TEST", Serial: "123456", Name: "probe"}})
	classes := []replyClass{
		{"ack", []Item{{Kind: "f", Data: Lit(ackPayload)}}},
		{"frame", []Item{{Kind: "f", Data: Lit(info)}}},
		{"rdy", []Item{textItem("RDY\n")}},
		{"map", []Item{textItem("map=1:5\n")}},
		{"rdymap", []Item{textItem("RDY\n"), textItem("map=1:2\n"), textItem("map=2:3\n")}},
		{"mapnolf", []Item{textItem("map=7:7")}},
		{"err", []Item{textItem("ErrorMsg=Panel is locked to another IP\n")}},
		{"errnolf", []Item{textItem("ErrorMsg=busy")}},
		{"err2", []Item{textItem("ErrorMsg=Max clients reached\n"), textItem("RDY\n")}},
		{"erreq", []Item{textItem("ErrorMsg=Connection refused: _serverModeMaxClients=1 reached, locked to IP=10.0.0.5\n")}},
		{"errpct", []Item{textItem("ErrorMsg=100% busy; try \"later\" (a|b) \\ %d ErrorMsg=x\n")}},
		{"errcr", []Item{textItem("ErrorMsg= spaced out \r\n"), textItem("list\n")}},
		{"text", []Item{textItem("nack\n")}},
		{"textlist", []Item{textItem("list\n")}},
		{"textbsy", []Item{textItem("BSY\n")}},
		{"texteq", []Item{textItem("ActivePanel=1\n")}},
		{"short", []Item{textItem("ok")}},
		{"junk", []Item{{Kind: "raw", Data: Lit([]byte{9, 0, 0, 0, 8, 2})}}},
		{"ack1", []Item{{Kind: "raw", Data: Lit(append(append([]byte{2, 0, 0, 0}, ackPayload...), 0))}}},
		{"hdronly", []Item{{Kind: "raw", Data: Lit([]byte{2, 0, 0, 0})}}},
	}
	delays := []int{0, 500, 1500, 1900, 2100}
	var scs []*Scenario
	hist := map[string]int{}
	add := func(name string, items []Item, d int, cl bool, entry string) {
		sc := &Scenario{ID: fmt.Sprintf("%s-%s-d%d-c%v", entry, name, d, cl), Entry: entry}
		cs := ConnScript{Items: items, End: "none"}
		if len(items) > 0 {
			cs.Segs = []SegCut{{d, 1 << 30}}
		}
		crit := []int{2000, 3000, 4000}
		if cl {
			cs.End = "close"
			cs.EndT = d + 50
			crit = append(crit, d+50, d+1050, d+2050, d+3050)
		}
		if len(items) > 0 {
			crit = append(crit, d)
		}
		sc.Conns = []ConnScript{cs}
		sc.Cancel = pickCancel(2600, crit, 450)
		sc.Sensitive = d == 1900 || d == 2100
		scs = append(scs, sc)
		hist[name]++
	}
	for _, entry := range []string{"client", "detector"} {
		for _, c := range classes {
			for _, d := range delays {
				for _, cl := range []bool{false, true} {
					if tier == "quick" && d == 500 && cl {
						continue
					}
					add(c.name, c.items, d, cl, entry)
				}
			}
		}
		add("silence", nil, 0, false, entry)
		add("silence", nil, 300, true, entry)
		add("silence", nil, 2400, true, entry)
	}
	// the same ADDRESS probed again: what one call found out about an address does not decide the next call (seed
	// C12-18: the stand-alone detector remembered addresses that had sat out the probe window and answered
	// "ASCII" for them at once, without probing).  Three scenarios of one address group, run alone and in order:
	// silent, then acknowledging, then silent again; each is an ordinary case
	for _, entry := range []string{"detector", "client"} {
		grp := map[string]string{"detector": "da", "client": "ca"}[entry]
		for k, c := range []replyClass{{"silence", nil}, classes[0], {"silence", nil}, classes[2]} {
			add(c.name, c.items, 0, false, entry)
			sc := scs[len(scs)-1]
			sc.ID = fmt.Sprintf("sameaddr%d-%s", k, sc.ID)
			sc.SameAddrAs, sc.Alone = grp, true
		}
	}
	// the same negotiation when the caller passes a CONFIG (only the retry periods set, as every existing caller
	// does): the 2 s window and its classification do not depend on it (seed C12-17: an optional probe timeout
	// added to the config lost its default whenever a config was passed - a window of 0 ms)
	for _, c := range classes[:6] {
		for _, d := range []int{0, 500, 1500} {
			add(c.name, c.items, d, false, "client")
			sc := scs[len(scs)-1]
			sc.ID = "cfg-" + sc.ID
			sc.UseCfg, sc.ReConn = true, 2
		}
	}
	add("silence", nil, 0, false, "client")
	scs[len(scs)-1].ID, scs[len(scs)-1].UseCfg, scs[len(scs)-1].NoConn = "cfg-client-silence", true, 1
	// two connections: what is handed to EACH onconnect depends only on that connection's reply
	{
		type rep struct {
			name  string
			items []Item
		}
		errR := rep{"err", []Item{textItem("ErrorMsg=Panel is busy\n")}}
		rdyR := rep{"rdy", []Item{textItem("RDY\n")}}
		ackR := rep{"ack", []Item{{Kind: "f", Data: Lit(ackPayload)}}}
		silR := rep{"silence", nil}
		for _, pair := range [][2]rep{{errR, rdyR}, {errR, ackR}, {errR, silR}, {rdyR, errR}, {ackR, errR}, {errR, {"err2", []Item{textItem("ErrorMsg=Locked\n")}}}} {
			mk := func(r rep, closeAt int) ConnScript {
				cs := ConnScript{Items: r.items, End: "none"}
				if len(r.items) > 0 {
					cs.Segs = []SegCut{{0, 1 << 30}}
				}
				if closeAt > 0 {
					cs.End, cs.EndT = "close", closeAt
				}
				return cs
			}
			first := mk(pair[0], 60)
			// first connection: binary -> disconnect at 60, redial 1060; ASCII -> EOF 60, disconnect 1060, redial 2060
			redial := 2060
			if pair[0].name == "ack" {
				redial = 1060
			}
			t0 := 0
			if pair[1].name == "silence" {
				t0 = 2000
			}
			sc := &Scenario{ID: fmt.Sprintf("client-two-%s-%s", pair[0].name, pair[1].name), Entry: "client", Conns: []ConnScript{first, mk(pair[1], 0)}, Cancel: redial + t0 + 700}
			scs = append(scs, sc)
			hist["two-connections"]++
		}
	}
	// traffic READY at connect time: a list already queued on msgsToPanel before the connection
	// exists while the onconnect callback takes 300 ms; the callback itself writing a line to the
	// conn it is handed.  The first thing the panel receives after the probe must be the single LF.
	{
		queued := [][]Submission{{{Msgs: []*rwp.InboundMessage{{FlowMessage: rwp.InboundMessage_PING}, {States: []*rwp.HWCState{{HWCIDs: []uint32{7}, HWCMode: &rwp.HWCMode{State: 4}}}}}}}}
		type rep struct {
			name  string
			items []Item
			t0    int
		}
		for _, r := range []rep{{"rdy", []Item{textItem("RDY\n")}, 0}, {"map", []Item{textItem("map=1:2\n")}, 0}, {"silence", nil, 2000}, {"ack", []Item{{Kind: "f", Data: Lit(ackPayload)}}, 0}, {"err", []Item{textItem("ErrorMsg=busy\n")}, 0}} {
			mk := func() ConnScript {
				cs := ConnScript{Items: r.items, End: "none"}
				if len(r.items) > 0 {
					cs.Segs = []SegCut{{0, 1 << 30}}
				}
				return cs
			}
			scs = append(scs, &Scenario{ID: "client-ready-queued-" + r.name, Entry: "client", Conns: []ConnScript{mk()}, Subs: queued, SubConn: -1, ConnectSleep: 300, Cancel: r.t0 + 1000})
			scs = append(scs, &Scenario{ID: "client-ready-cbwrite-" + r.name, Entry: "client", Conns: []ConnScript{mk()}, ConnectWrite: []byte("list\n"), ConnectSleep: 100, Cancel: r.t0 + 800})
			scs = append(scs, &Scenario{ID: "client-ready-atconnect-" + r.name, Entry: "client", Conns: []ConnScript{mk()}, Subs: queued, SubConn: 0, SubStart: 0, ConnectSleep: 300, Cancel: r.t0 + 1000})
			hist["ready-at-connect"] += 3
		}
	}
	if tier == "thorough" {
		for k := 0; k < 96; k++ {
			var b []byte
			switch rng.Intn(4) {
			case 0: // printable text with line feeds
				n := rng.Range(1, 60)
				for i := 0; i < n; i++ {
					if rng.Intn(9) == 0 {
						b = append(b, '\n')
					} else {
						b = append(b, byte(rng.Range(32, 126)))
					}
				}
			case 1: // ErrorMsg with random tail
				b = []byte("ErrorMsg=")
				n := rng.Range(0, 40)
				for i := 0; i < n; i++ {
					b = append(b, byte(rng.Range(32, 126)))
				}
				if rng.Bool() {
					b = append(b, '\n')
				}
			case 2: // random bytes
				b = rng.Bytes(rng.Range(1, 40))
			case 3: // header that matches the length: a "frame" with junk payload
				p := rng.Bytes(rng.Range(1, 30))
				b = append([]byte{byte(len(p)), 0, 0, 0}, p...)
			}
			entry := "client"
			if rng.Intn(3) == 0 {
				entry = "detector"
			}
			add(fmt.Sprintf("rnd%d", k), []Item{{Kind: "raw", Data: Lit(b)}}, rng.Pick([]int{0, 200, 1200}), rng.Bool(), entry)
		}
	}
	// several connections, the panel changing its behaviour from one to the next (matrix.go)
	for _, sc := range matrixScenarios(tier, false) {
		scs = append(scs, sc)
		hist["matrix"]++
	}
	meta(map[string]interface{}{"c12_reply_classes": hist, "delays_ms": delays, "entries": []string{"client", "detector"}, "scenarios": len(scs)})
	runBatch(scs, 64)
	meta(map[string]interface{}{"reruns": rerunCount, "reruns_rescued": rerunRescued})
}
