//go:build verif

package main

import (
	"sync"
	"time"

	rwl "github.com/SKAARHOJ/rawpanel-lib"
)

// installWriterHook uses the verification hook of /repo (verifhook_on.go, -tags verif): the
// writer goroutine of the scenario's FIRST connection is held at its start for sc.HookDelay ms,
// and the instant every writer goroutine reaches its exit point is logged as (wexit t).
// The hook is a package global, so such a scenario runs alone; the returned function waits for
// the held goroutine to finish (bounded) and removes the hook.
func installWriterHook(sc *Scenario, lg *obsLog) func() {
	if sc.HookDelay <= 0 {
		return nil
	}
	var mu sync.Mutex
	started, exited := 0, 0
	rwl.VerifHook = func(point string) {
		switch point {
		case "connect-writer-start":
			mu.Lock()
			first := started == 0
			started++
			mu.Unlock()
			if first {
				time.Sleep(time.Duration(sc.HookDelay) * time.Millisecond)
			}
		case "connect-writer-exit":
			lg.add(func(t int) Sx { return L(Sym("wexit"), t) })
			mu.Lock()
			exited++
			mu.Unlock()
		}
	}
	return func() {
		deadline := time.Now().Add(time.Duration(sc.HookDelay+1500) * time.Millisecond)
		for time.Now().Before(deadline) {
			mu.Lock()
			done := started > 0 && exited >= started
			mu.Unlock()
			if done {
				break
			}
			time.Sleep(10 * time.Millisecond)
		}
		rwl.VerifHook = nil
	}
}
