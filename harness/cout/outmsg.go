package main

// OutboundMessage <-> s-expression (the form of coq/theories/Model/MsgOut.v), and the
// oracle helpers (payload flattening, NetworkConfig JSON text) obtained from the library itself.

import (
	"encoding/json"
	"math"
	"sort"
	"strings"

	helpers "github.com/SKAARHOJ/rawpanel-lib"
	rwp "github.com/SKAARHOJ/rawpanel-lib/ibeam_rawpanel"
	"google.golang.org/protobuf/proto"
)

var symNil = Sym("nil")

func sStr(s string) Sx        { return L(Sym("s"), []byte(s)) }
func sNum(v int64) Sx         { return L(Sym("n"), v) }
func sBool(b bool) Sx         { return L(Sym("n"), b) }
func f32bits(f float32) int64 { return int64(math.Float32bits(f)) }

// The exported switch DebugRWPhelpers makes all four converters PRINT what they did; it must not change what
// they return (seed C04-18: the debug block shortened long documents in a shallow copy of the message it was
// about to return).  Every fifth converter call of this harness runs with the switch on (stdout is /dev/null).
var dbgCalls int

func dbgTick() {
	dbgCalls++
	helpers.DebugRWPhelpers = dbgCalls%5 == 0
}

// encoder run under recover(); ok=false on panic
func encSafe(ms []*rwp.OutboundMessage) (lines []string, ok bool) {
	defer func() {
		if r := recover(); r != nil {
			lines, ok = nil, false
		}
	}()
	dbgTick()
	return helpers.OutboundMessagesToRawPanelASCIIstrings(ms), true
}

func decSafe(ls []string) (ms []*rwp.OutboundMessage, ok bool) {
	defer func() {
		if r := recover(); r != nil {
			ms, ok = nil, false
		}
	}()
	dbgTick()
	return helpers.RawPanelASCIIstringsToOutboundMessages(ls), true
}

// ---- oracles through the library's own (unexported) helpers
var flatCache = map[string]string{}
var flatSvgCache = map[string]string{}

func flatOf(s string) string { // stripLineBreaks
	if v, ok := flatCache[s]; ok {
		return v
	}
	ls, ok := encSafe([]*rwp.OutboundMessage{{BurninProfile: &rwp.BurninProfile{Json: s}}})
	v := s
	if ok && len(ls) == 1 {
		v = strings.TrimPrefix(ls[0], "_burninProfile=")
	}
	flatCache[s] = v
	return v
}
func flatSvgOf(s string) string { // stripLineBreaksSvg
	if v, ok := flatSvgCache[s]; ok {
		return v
	}
	ls, ok := encSafe([]*rwp.OutboundMessage{{PanelTopology: &rwp.PanelTopology{Svgbase: s}}})
	v := s
	if ok && len(ls) == 2 {
		v = strings.TrimPrefix(ls[0], "_panelTopology_svgbase=")
	}
	flatSvgCache[s] = v
	return v
}
func netToken(c *rwp.NetworkConfig) string { // networkStringFromConfig
	ls, ok := encSafe([]*rwp.OutboundMessage{{NetworkConfig: c}})
	if ok && len(ls) == 1 {
		return strings.TrimPrefix(ls[0], "_networkConfig=")
	}
	return ""
}

// ---- message -> s-expression
func eventSx(e *rwp.HWCEvent) Sx {
	if e == nil {
		return symNil
	}
	var bin, pul, abs, spd, raw Sx = symNil, symNil, symNil, symNil, symNil
	if e.Binary != nil {
		bin = L(Sym("b"), e.Binary.Pressed, int(e.Binary.Edge))
	}
	if e.Pulsed != nil {
		pul = sNum(int64(e.Pulsed.Value))
	}
	if e.Absolute != nil {
		abs = L(Sym("n"), e.Absolute.Value, e.Absolute.PrevValue)
	}
	if e.Speed != nil {
		spd = L(Sym("n"), e.Speed.Value, e.Speed.PrevValue)
	}
	if e.RawAnalog != nil {
		raw = sNum(int64(e.RawAnalog.Value))
	}
	return L(Sym("ev"), e.HWCID, e.Timestamp, bin, pul, abs, spd, raw)
}

func supFlags(s *rwp.RawPanelSupport) []bool {
	return []bool{s.ASCII, s.Binary, s.ASCII_JSONfeedback, s.ASCII_Inbound, s.ASCII_Outbound, s.System, s.RawADCValues,
		s.BurninProfile, s.EnvHealth, s.Registers, s.Calibration, s.Processors, s.NetworkSettings}
}
func supFrom(f []bool) *rwp.RawPanelSupport {
	for len(f) < 13 {
		f = append(f, false)
	}
	return &rwp.RawPanelSupport{ASCII: f[0], Binary: f[1], ASCII_JSONfeedback: f[2], ASCII_Inbound: f[3], ASCII_Outbound: f[4],
		System: f[5], RawADCValues: f[6], BurninProfile: f[7], EnvHealth: f[8], Registers: f[9], Calibration: f[10],
		Processors: f[11], NetworkSettings: f[12]}
}

func pinfoSx(p *rwp.PanelInfo) Sx {
	if p == nil {
		return symNil
	}
	var locked []Sx
	for _, s := range p.LockedToIPs {
		locked = append(locked, Sx([]byte(s)))
	}
	var sup Sx = symNil
	if p.RawPanelSupport != nil {
		l := []Sx{Sym("sup")}
		for _, b := range supFlags(p.RawPanelSupport) {
			l = append(l, Sx(b))
		}
		sup = l
	}
	return L(Sym("pi"), []byte(p.Model), []byte(p.Serial), []byte(p.Name), []byte(p.SoftwareVersion), []byte(p.Platform),
		p.BluePillReady, p.MaxClients, locked, int(p.PanelType), sup)
}

func sysSx(s *rwp.SystemStat) Sx {
	if s == nil {
		return symNil
	}
	return L(Sym("ss"), s.CPUUsage, f32bits(s.CPUTemp), f32bits(s.ExtTemp), f32bits(s.CPUVoltage),
		s.CPUFreqCurrent, s.CPUFreqMin, s.CPUFreqMax, s.MemTotal, s.MemFree, s.MemAvailable, s.MemBuffers, s.MemCached,
		s.UnderVoltageNow, s.UnderVoltage, s.FreqCapNow, s.FreqCap, s.ThrottledNow, s.Throttled, s.SoftTempLimitNow, s.SoftTempLimit)
}

func msgSx(m *rwp.OutboundMessage) Sx {
	if m == nil {
		return symNil
	}
	keys := make([]uint32, 0, len(m.HWCavailability))
	for k := range m.HWCavailability {
		keys = append(keys, k)
	}
	sort.Slice(keys, func(i, j int) bool { return keys[i] < keys[j] })
	var mp []Sx
	for _, k := range keys {
		mp = append(mp, Sx(L(k, m.HWCavailability[k])))
	}
	opt := func(present bool, f func() Sx) Sx {
		if !present {
			return symNil
		}
		return f()
	}
	var evs, regs []Sx
	for _, e := range m.Events {
		evs = append(evs, eventSx(e))
	}
	for _, r := range m.Registers {
		if r == nil {
			regs = append(regs, Sx(symNil))
		} else {
			regs = append(regs, Sx(L(Sym("r"), int(r.Reg), []byte(r.Id), r.Value)))
		}
	}
	return L(Sym("msg"), int(m.FlowMessage), mp,
		pinfoSx(m.PanelInfo),
		opt(m.PanelTopology != nil, func() Sx { return L(Sym("topo"), []byte(m.PanelTopology.Svgbase), []byte(m.PanelTopology.Json)) }),
		opt(m.BurninProfile != nil, func() Sx { return sStr(m.BurninProfile.Json) }),
		opt(m.NetworkConfig != nil, func() Sx { return sStr(netToken(m.NetworkConfig)) }),
		opt(m.CalibrationProfile != nil, func() Sx { return sStr(m.CalibrationProfile.Json) }),
		opt(m.DefaultCalibrationProfile != nil, func() Sx { return sStr(m.DefaultCalibrationProfile.Json) }),
		opt(m.SleepTimeout != nil, func() Sx { return sNum(int64(m.SleepTimeout.Value)) }),
		opt(m.SleepState != nil, func() Sx { return sBool(m.SleepState.IsSleeping) }),
		opt(m.HeartBeatTimer != nil, func() Sx { return sNum(int64(m.HeartBeatTimer.Value)) }),
		opt(m.DimmedGain != nil, func() Sx { return sNum(int64(m.DimmedGain.Value)) }),
		opt(m.Connections != nil, func() Sx {
			l := []Sx{Sym("l")}
			for _, c := range m.Connections.Connection {
				l = append(l, Sx([]byte(c)))
			}
			return l
		}),
		opt(m.RunTimeStats != nil, func() Sx {
			r := m.RunTimeStats
			return L(Sym("rt"), r.BootsCount, r.TotalUptime, r.SessionUptime, r.ScreenSaveOnTime)
		}),
		opt(m.ErrorMessage != nil, func() Sx { return sStr(m.ErrorMessage.Message) }),
		opt(m.Message != nil, func() Sx { return sStr(m.Message.Message) }),
		opt(m.EnvironmentalHealth != nil, func() Sx { return sNum(int64(m.EnvironmentalHealth.RunMode)) }),
		sysSx(m.SysStat), evs, regs)
}

// ---- s-expression -> message
func isNil(n *Node) bool  { return n != nil && !n.IsList && n.Atom == "nil" }
func nStr(n *Node) string { return string(n.Kids[1].Bytes()) }
func i64(n *Node) int64 {
	v := int64(0)
	neg := false
	s := n.Atom
	if strings.HasPrefix(s, "-") {
		neg = true
		s = s[1:]
	}
	for _, c := range s {
		v = v*10 + int64(c-'0')
	}
	if neg {
		return -v
	}
	return v
}

func eventFrom(n *Node) *rwp.HWCEvent {
	if isNil(n) {
		return nil
	}
	k := n.Kids
	e := &rwp.HWCEvent{HWCID: uint32(i64(k[1])), Timestamp: uint32(i64(k[2]))}
	if !isNil(k[3]) {
		e.Binary = &rwp.BinaryEvent{Pressed: k[3].Kids[1].Bool(), Edge: rwp.BinaryEvent_EdgeID(int32(i64(k[3].Kids[2])))}
	}
	if !isNil(k[4]) {
		e.Pulsed = &rwp.PulsedEvent{Value: int32(i64(k[4].Kids[1]))}
	}
	if !isNil(k[5]) {
		e.Absolute = &rwp.AbsoluteEvent{Value: uint32(i64(k[5].Kids[1])), PrevValue: uint32(i64(k[5].Kids[2]))}
	}
	if !isNil(k[6]) {
		e.Speed = &rwp.SpeedEvent{Value: int32(i64(k[6].Kids[1])), PrevValue: int32(i64(k[6].Kids[2]))}
	}
	if !isNil(k[7]) {
		e.RawAnalog = &rwp.RawAnalogEvent{Value: uint32(i64(k[7].Kids[1]))}
	}
	return e
}

func msgFrom(n *Node) *rwp.OutboundMessage {
	if isNil(n) {
		return nil
	}
	k := n.Kids
	m := &rwp.OutboundMessage{FlowMessage: rwp.OutboundMessage_FlowMsg(int32(i64(k[1])))}
	if len(k[2].Kids) > 0 {
		m.HWCavailability = map[uint32]uint32{}
		for _, e := range k[2].Kids {
			m.HWCavailability[uint32(i64(e.Kids[0]))] = uint32(i64(e.Kids[1]))
		}
	}
	if !isNil(k[3]) {
		p := k[3].Kids
		pi := &rwp.PanelInfo{Model: string(p[1].Bytes()), Serial: string(p[2].Bytes()), Name: string(p[3].Bytes()),
			SoftwareVersion: string(p[4].Bytes()), Platform: string(p[5].Bytes()), BluePillReady: p[6].Bool(),
			MaxClients: uint32(i64(p[7])), PanelType: rwp.PanelInfo_PanelTypeE(int32(i64(p[9])))}
		for _, s := range p[8].Kids {
			pi.LockedToIPs = append(pi.LockedToIPs, string(s.Bytes()))
		}
		if !isNil(p[10]) {
			var f []bool
			for _, b := range p[10].Kids[1:] {
				f = append(f, b.Bool())
			}
			pi.RawPanelSupport = supFrom(f)
		}
		m.PanelInfo = pi
	}
	if !isNil(k[4]) {
		m.PanelTopology = &rwp.PanelTopology{Svgbase: string(k[4].Kids[1].Bytes()), Json: string(k[4].Kids[2].Bytes())}
	}
	if !isNil(k[5]) {
		m.BurninProfile = &rwp.BurninProfile{Json: nStr(k[5])}
	}
	if !isNil(k[6]) {
		c := &rwp.NetworkConfig{}
		json.Unmarshal([]byte(nStr(k[6])), c)
		m.NetworkConfig = c
	}
	if !isNil(k[7]) {
		m.CalibrationProfile = &rwp.CalibrationProfile{Json: nStr(k[7])}
	}
	if !isNil(k[8]) {
		m.DefaultCalibrationProfile = &rwp.CalibrationProfile{Json: nStr(k[8])}
	}
	if !isNil(k[9]) {
		m.SleepTimeout = &rwp.SleepTimeout{Value: uint32(i64(k[9].Kids[1]))}
	}
	if !isNil(k[10]) {
		m.SleepState = &rwp.SleepState{IsSleeping: k[10].Kids[1].Bool()}
	}
	if !isNil(k[11]) {
		m.HeartBeatTimer = &rwp.HeartBeatTimer{Value: uint32(i64(k[11].Kids[1]))}
	}
	if !isNil(k[12]) {
		m.DimmedGain = &rwp.DimmedGain{Value: uint32(i64(k[12].Kids[1]))}
	}
	if !isNil(k[13]) {
		c := &rwp.Connections{}
		for _, s := range k[13].Kids[1:] {
			c.Connection = append(c.Connection, string(s.Bytes()))
		}
		m.Connections = c
	}
	if !isNil(k[14]) {
		r := k[14].Kids
		m.RunTimeStats = &rwp.RunTimeStats{BootsCount: uint32(i64(r[1])), TotalUptime: uint32(i64(r[2])),
			SessionUptime: uint32(i64(r[3])), ScreenSaveOnTime: uint32(i64(r[4]))}
	}
	if !isNil(k[15]) {
		m.ErrorMessage = &rwp.Message{Message: nStr(k[15])}
	}
	if !isNil(k[16]) {
		m.Message = &rwp.Message{Message: nStr(k[16])}
	}
	if !isNil(k[17]) {
		m.EnvironmentalHealth = &rwp.Environment{RunMode: rwp.Environment_RunModeE(int32(i64(k[17].Kids[1])))}
	}
	if !isNil(k[18]) {
		s := k[18].Kids
		f32 := func(n *Node) float32 { return math.Float32frombits(uint32(i64(n))) }
		i32 := func(n *Node) int32 { return int32(i64(n)) }
		m.SysStat = &rwp.SystemStat{CPUUsage: uint32(i64(s[1])), CPUTemp: f32(s[2]), ExtTemp: f32(s[3]), CPUVoltage: f32(s[4]),
			CPUFreqCurrent: i32(s[5]), CPUFreqMin: i32(s[6]), CPUFreqMax: i32(s[7]), MemTotal: i32(s[8]), MemFree: i32(s[9]),
			MemAvailable: i32(s[10]), MemBuffers: i32(s[11]), MemCached: i32(s[12]),
			UnderVoltageNow: s[13].Bool(), UnderVoltage: s[14].Bool(), FreqCapNow: s[15].Bool(), FreqCap: s[16].Bool(),
			ThrottledNow: s[17].Bool(), Throttled: s[18].Bool(), SoftTempLimitNow: s[19].Bool(), SoftTempLimit: s[20].Bool()}
	}
	for _, e := range k[19].Kids {
		m.Events = append(m.Events, eventFrom(e))
	}
	for _, r := range k[20].Kids {
		if isNil(r) {
			m.Registers = append(m.Registers, nil)
		} else {
			m.Registers = append(m.Registers, &rwp.Register{Reg: rwp.Register_RegisterE(int32(i64(r.Kids[1]))),
				Id: string(r.Kids[2].Bytes()), Value: uint32(i64(r.Kids[3]))})
		}
	}
	return m
}

// the s-expression view loses nothing of m (used on decoder outputs): float NaN payloads and
// -0 are compared by bit pattern through the printed form.
func faithful(m *rwp.OutboundMessage) bool {
	if m == nil {
		return true
	}
	var b strings.Builder
	sx(&b, msgSx(m))
	back := msgFrom(parseSexp(b.String()))
	var b2 strings.Builder
	sx(&b2, msgSx(back))
	if b.String() != b2.String() {
		return false
	}
	// anything outside the printed view (BusStatus, unknown fields) must be absent:
	// clear the float fields (NaN != NaN under proto.Equal) and compare the rest.
	x, y := proto.Clone(m).(*rwp.OutboundMessage), proto.Clone(back).(*rwp.OutboundMessage)
	for _, z := range []*rwp.OutboundMessage{x, y} {
		if z.SysStat != nil {
			z.SysStat.CPUTemp, z.SysStat.ExtTemp, z.SysStat.CPUVoltage = 0, 0, 0
		}
		if z.HWCavailability != nil && len(z.HWCavailability) == 0 {
			z.HWCavailability = nil
		}
	}
	return proto.Equal(x, y)
}
