package main

// C03 (+ encoder half of C06): run OutboundMessagesToRawPanelASCIIstrings on generated
// messages; case = (c03 (msg...) flat-table svg-table (lines (l #..)...)|panic)

import (
	"fmt"
	"math"
	"sort"

	rwp "github.com/SKAARHOJ/rawpanel-lib/ibeam_rawpanel"
	"google.golang.org/protobuf/proto"
)

func init() {
	props["C03"] = genC03
	replays["C03"] = replayC03
}

var c03stats = map[string]int{}

func emitC03(kind string, ms []*rwp.OutboundMessage) {
	c03stats[kind]++
	var msx []Sx
	flat := map[string]bool{}
	svg := map[string]bool{}
	for _, m := range ms {
		msx = append(msx, msgSx(m))
		if m == nil {
			continue
		}
		if m.PanelTopology != nil {
			svg[m.PanelTopology.Svgbase] = true
			flat[m.PanelTopology.Json] = true
		}
		if m.BurninProfile != nil {
			flat[m.BurninProfile.Json] = true
		}
		if m.CalibrationProfile != nil {
			flat[m.CalibrationProfile.Json] = true
		}
		if m.DefaultCalibrationProfile != nil {
			flat[m.DefaultCalibrationProfile.Json] = true
		}
		if m.ErrorMessage != nil {
			flat[m.ErrorMessage.Message] = true
		}
		if m.Message != nil {
			flat[m.Message.Message] = true
		}
	}
	tab := func(set map[string]bool, f func(string) string) []Sx {
		keys := make([]string, 0, len(set))
		for k := range set {
			keys = append(keys, k)
		}
		sort.Strings(keys)
		var t []Sx
		for _, k := range keys {
			t = append(t, Sx(L([]byte(k), []byte(f(k)))))
		}
		return t
	}
	ft, st := tab(flat, flatOf), tab(svg, flatSvgOf)
	lines, ok := encSafe(ms)
	var out Sx = Sym("panic")
	if ok {
		c03stats["lines"] += len(lines)
		l := []Sx{Sym("lines")}
		for _, s := range lines {
			l = append(l, Sx(L(Sym("l"), []byte(s))))
		}
		out = l
	} else {
		c03stats["panics"]++
	}
	emit(L(Sym("c03"), msx, ft, st, out))
}

func replayC03(line string) {
	n := parseSexp(line)
	if n == nil || !n.IsList || len(n.Kids) < 2 || n.Kids[0].Atom != "c03" {
		return
	}
	var ms []*rwp.OutboundMessage
	for _, k := range n.Kids[1].Kids {
		ms = append(ms, msgFrom(k))
	}
	emitC03("replay", ms)
}

// ---- generators
var idGrid = []uint32{0, 1, 5, 255, 65535, 1 << 31, 1<<32 - 1}
var edgeGrid = []int32{0, 1, 2, 4, 8, 16, 3, 255, math.MaxInt32, -1, math.MinInt32}
var i32Grid = []int32{0, 1, -1, 2, -2, 9, 10, -10, 99, 100, 1000, 65535, -65536, math.MaxInt32, math.MinInt32, math.MaxInt32 - 1, math.MinInt32 + 1}
var u32Grid = []uint32{0, 1, 2, 9, 10, 99, 100, 1000, 65535, 65536, 1<<31 - 1, 1 << 31, 1<<32 - 2, 1<<32 - 1}

const printable = "abcdefghijklmnopqrstuvwxyzABCDEFGHIJKLMNOPQRSTUVWXYZ0123456789 _-=:;,.|#/+*()[]{}<>\"'!?@&%$~^\\`"

func randText(r *Rng, maxLen int) string {
	n := r.Range(1, maxLen)
	b := make([]byte, 0, n+4)
	for i := 0; i < n; i++ {
		switch r.Intn(40) {
		case 0:
			b = append(b, "é"...)
		case 1:
			b = append(b, "日"...)
		default:
			b = append(b, printable[r.Intn(len(printable))])
		}
	}
	return string(b)
}

// text without surrounding white space (so flattening is the identity)
func trimmedText(r *Rng, maxLen int) string {
	for {
		s := randText(r, maxLen)
		if s[0] != ' ' && s[len(s)-1] != ' ' {
			return s
		}
	}
}

// list element: no ';', no surrounding space
func elemText(r *Rng) string {
	for {
		s := trimmedText(r, 12)
		ok := true
		for i := 0; i < len(s); i++ {
			if s[i] == ';' {
				ok = false
			}
		}
		if ok {
			return s
		}
	}
}

func randID(r *Rng) string {
	const cs = "ABCDEFGHIJKLMNOPQRSTUVWXYZ0123456789"
	n := r.Intn(5)
	b := make([]byte, n)
	for i := range b {
		b[i] = cs[r.Intn(len(cs))]
	}
	return string(b)
}

func pickU32(r *Rng) uint32 {
	if r.Intn(3) == 0 {
		return uint32(r.U64())
	}
	return u32Grid[r.Intn(len(u32Grid))]
}
func pickI32(r *Rng) int32 {
	if r.Intn(3) == 0 {
		return int32(uint32(r.U64()))
	}
	return i32Grid[r.Intn(len(i32Grid))]
}
func pickF32(r *Rng) float32 {
	switch r.Intn(6) {
	case 0:
		return math.Float32frombits(uint32(r.U64()))
	case 1:
		return float32(r.Range(-20000, 20000)) / 100
	case 2:
		// neighbourhood of a %.1f rounding boundary
		t := float64(r.Range(-2000, 2000))
		f := float32((t + 0.5) / 10)
		return math.Float32frombits(math.Float32bits(f) + uint32(r.Range(0, 2)) - 1)
	case 3:
		return []float32{0, float32(math.Copysign(0, -1)), 0.05, -0.05, 0.25, 0.35, 0.005, 0.015, 0.125, 1e-45, 3.4028235e38, -3.4028235e38, 1e10, 999.95, 99.995}[r.Intn(15)]
	default:
		return float32(r.Range(-1500, 1500)) / 10
	}
}

func randEvent(r *Rng) *rwp.HWCEvent {
	e := &rwp.HWCEvent{HWCID: idGrid[r.Intn(len(idGrid))]}
	if r.Intn(2) == 0 {
		e.HWCID = uint32(r.Intn(300))
	}
	pick := func(k int) {
		switch k {
		case 0:
			e.Binary = &rwp.BinaryEvent{Pressed: r.Bool(), Edge: rwp.BinaryEvent_EdgeID([]int32{0, 1, 2, 4, 8, 16}[r.Intn(6)])}
		case 1:
			e.Pulsed = &rwp.PulsedEvent{Value: pickI32(r)}
		case 2:
			e.Absolute = &rwp.AbsoluteEvent{Value: pickU32(r)}
		case 3:
			e.Speed = &rwp.SpeedEvent{Value: pickI32(r)}
		case 4:
			e.RawAnalog = &rwp.RawAnalogEvent{Value: pickU32(r)}
		}
	}
	pick(r.Intn(5))
	if r.Intn(8) == 0 {
		pick(r.Intn(5)) // an event record carrying two kinds
	}
	return e
}

func randSupport(r *Rng) *rwp.RawPanelSupport {
	bits := r.Intn(1 << 13)
	f := make([]bool, 13)
	for i := range f {
		f[i] = bits&(1<<i) != 0
	}
	return supFrom(f)
}

func randSys(r *Rng) *rwp.SystemStat {
	s := &rwp.SystemStat{CPUUsage: pickU32(r), CPUTemp: pickF32(r), ExtTemp: pickF32(r), CPUVoltage: pickF32(r),
		CPUFreqCurrent: pickI32(r), CPUFreqMin: pickI32(r), CPUFreqMax: pickI32(r), MemTotal: pickI32(r), MemFree: pickI32(r),
		MemAvailable: pickI32(r), MemBuffers: pickI32(r), MemCached: pickI32(r)}
	b := r.Intn(256)
	s.UnderVoltageNow, s.UnderVoltage, s.FreqCapNow, s.FreqCap = b&1 != 0, b&2 != 0, b&4 != 0, b&8 != 0
	s.ThrottledNow, s.Throttled, s.SoftTempLimitNow, s.SoftTempLimit = b&16 != 0, b&32 != 0, b&64 != 0, b&128 != 0
	return s
}

func randReg(r *Rng) *rwp.Register {
	k := rwp.Register_RegisterE(r.Intn(4))
	g := &rwp.Register{Reg: k, Id: randID(r), Value: pickU32(r)}
	if k == rwp.Register_FLAG {
		g.Id = []string{"0", "1", "7", "10", "255", "4294967295", "18446744073709551615"}[r.Intn(7)]
		g.Value = uint32(r.Intn(2))
	}
	return g
}

func randMap(r *Rng, n int) map[uint32]uint32 {
	m := map[uint32]uint32{}
	for len(m) < n {
		k := uint32(r.Intn(400))
		if r.Intn(6) == 0 {
			k = pickU32(r)
		}
		m[k] = pickU32(r)
	}
	return m
}

// a composite, representable message: each part present with probability p/100
func randMsg(r *Rng, p int) *rwp.OutboundMessage {
	m := &rwp.OutboundMessage{}
	on := func() bool { return r.Intn(100) < p }
	if on() {
		m.FlowMessage = []rwp.OutboundMessage_FlowMsg{1, 2, 3, 4, 5, 100}[r.Intn(6)]
	}
	if on() {
		pi := &rwp.PanelInfo{}
		if r.Bool() {
			pi.Model = randText(r, 10)
		}
		if r.Bool() {
			pi.Serial = randText(r, 10)
		}
		if r.Bool() {
			pi.Name = randText(r, 10)
		}
		if r.Bool() {
			pi.SoftwareVersion = randText(r, 10)
		}
		if r.Bool() {
			pi.Platform = randText(r, 10)
		}
		pi.BluePillReady = r.Bool()
		if r.Bool() {
			pi.MaxClients = pickU32(r)
		}
		for i := r.Intn(4); i > 0; i-- {
			pi.LockedToIPs = append(pi.LockedToIPs, elemText(r))
		}
		pi.PanelType = rwp.PanelInfo_PanelTypeE(r.Intn(6))
		if r.Bool() {
			pi.RawPanelSupport = randSupport(r)
		}
		m.PanelInfo = pi
	}
	if on() {
		m.PanelTopology = &rwp.PanelTopology{}
		if r.Bool() {
			m.PanelTopology.Svgbase = "<svg>" + trimmedText(r, 10) + "</svg>"
		}
		if r.Bool() {
			m.PanelTopology.Json = trimmedText(r, 20)
		}
	}
	if on() {
		m.BurninProfile = &rwp.BurninProfile{Json: trimmedText(r, 20)}
	}
	if on() {
		m.CalibrationProfile = &rwp.CalibrationProfile{Json: trimmedText(r, 20)}
	}
	if on() {
		m.DefaultCalibrationProfile = &rwp.CalibrationProfile{Json: trimmedText(r, 20)}
	}
	if on() {
		m.SleepTimeout = &rwp.SleepTimeout{Value: pickU32(r)}
	}
	if on() {
		m.SleepState = &rwp.SleepState{IsSleeping: r.Bool()}
	}
	if on() {
		m.HeartBeatTimer = &rwp.HeartBeatTimer{Value: pickU32(r)}
	}
	if on() {
		m.DimmedGain = &rwp.DimmedGain{Value: pickU32(r)}
	}
	if on() {
		c := &rwp.Connections{}
		for i := r.Intn(4); i > 0; i-- {
			c.Connection = append(c.Connection, elemText(r))
		}
		m.Connections = c
	}
	if on() {
		m.RunTimeStats = &rwp.RunTimeStats{BootsCount: pickU32(r), TotalUptime: pickU32(r), SessionUptime: pickU32(r), ScreenSaveOnTime: pickU32(r)}
		if r.Bool() {
			m.RunTimeStats.TotalUptime = 0
		}
	}
	if on() {
		m.ErrorMessage = &rwp.Message{Message: trimmedText(r, 20)}
	}
	if on() {
		m.Message = &rwp.Message{Message: trimmedText(r, 20)}
	}
	if on() {
		m.HWCavailability = randMap(r, r.Range(1, 8))
	}
	if on() {
		m.EnvironmentalHealth = &rwp.Environment{RunMode: rwp.Environment_RunModeE(r.Intn(3))}
	}
	if on() {
		m.SysStat = randSys(r)
	}
	if on() {
		for i := r.Range(1, 4); i > 0; i-- {
			m.Events = append(m.Events, randEvent(r))
		}
	}
	if on() {
		for i := r.Range(1, 3); i > 0; i-- {
			m.Registers = append(m.Registers, randReg(r))
		}
	}
	return m
}

// messages outside the representable domain (correspondence only)
func oddMsg(r *Rng) *rwp.OutboundMessage {
	m := randMsg(r, 15)
	odd := []string{"", " ", " lead", "trail ", "a\nb", "a\r\nb", "\n", " x \n y ", " nbsp ", " ls", "tab\t", "<a>\n <b/>\n</a>", "M 1 2\nL 3 4\n", "a;b", ";", "=", "x=y"}
	pick := func() string { return odd[r.Intn(len(odd))] }
	switch r.Intn(12) {
	case 0:
		m.FlowMessage = rwp.OutboundMessage_FlowMsg([]int32{6, 7, 99, 101, -1, math.MaxInt32, math.MinInt32}[r.Intn(7)])
	case 1:
		m.PanelInfo = &rwp.PanelInfo{Model: pick(), Serial: pick(), Name: pick(), LockedToIPs: []string{pick(), pick()},
			PanelType: rwp.PanelInfo_PanelTypeE([]int32{6, 7, -1, 100, math.MaxInt32}[r.Intn(5)])}
	case 2:
		m.PanelTopology = &rwp.PanelTopology{Svgbase: pick(), Json: pick()}
	case 3:
		m.BurninProfile = &rwp.BurninProfile{Json: pick()}
		m.CalibrationProfile = &rwp.CalibrationProfile{Json: pick()}
	case 4:
		m.Message = &rwp.Message{Message: pick()}
		m.ErrorMessage = &rwp.Message{Message: pick()}
	case 5:
		m.Connections = &rwp.Connections{Connection: []string{pick(), pick()}}
	case 6:
		m.EnvironmentalHealth = &rwp.Environment{RunMode: rwp.Environment_RunModeE([]int32{3, -1, 100}[r.Intn(3)])}
	case 7:
		m.Events = append(m.Events, &rwp.HWCEvent{HWCID: pickU32(r), Binary: &rwp.BinaryEvent{Pressed: r.Bool(), Edge: rwp.BinaryEvent_EdgeID(edgeGrid[r.Intn(len(edgeGrid))])}})
	case 8:
		m.Registers = append(m.Registers, &rwp.Register{Reg: rwp.Register_RegisterE([]int32{4, -1, 1, 1, 0}[r.Intn(5)]), Id: pick(), Value: pickU32(r)})
	case 9:
		m.SysStat = randSys(r)
		m.SysStat.CPUTemp = []float32{float32(math.NaN()), float32(math.Inf(1)), float32(math.Inf(-1))}[r.Intn(3)]
		m.SysStat.CPUVoltage = math.Float32frombits(uint32(r.U64()) | 0x7f800000)
	case 10:
		m.NetworkConfig = &rwp.NetworkConfig{Dhcp: r.Bool(), Address: pick(), Netmask: "255.255.255.0", NoDefaultRoute: r.Bool()}
	case 11:
		m.DefaultCalibrationProfile = &rwp.CalibrationProfile{Json: pick()}
	}
	return m
}

// presence pattern sweep / wire mutation (C06): message -> wire -> (mutate) -> message
func viaWire(m *rwp.OutboundMessage, r *Rng, mutate int) *rwp.OutboundMessage {
	b, err := proto.Marshal(m)
	if err != nil {
		return nil
	}
	for i := 0; i < mutate && len(b) > 0; i++ {
		switch r.Intn(4) {
		case 0:
			b[r.Intn(len(b))] ^= byte(1 << r.Intn(8))
		case 1:
			b[r.Intn(len(b))] = byte(r.U64())
		case 2:
			p := r.Intn(len(b))
			b = append(b[:p], b[p+1:]...)
		case 3:
			p := r.Intn(len(b) + 1)
			b = append(b[:p], append([]byte{byte(r.U64())}, b[p:]...)...)
		}
	}
	out := &rwp.OutboundMessage{}
	if proto.Unmarshal(b, out) != nil {
		return nil
	}
	return out
}

// every sub-message present-but-empty or absent according to mask
func presenceMsg(mask int) *rwp.OutboundMessage {
	m := &rwp.OutboundMessage{}
	b := func(i int) bool { return mask&(1<<i) != 0 }
	if b(0) {
		m.PanelInfo = &rwp.PanelInfo{}
	}
	if b(1) {
		m.PanelTopology = &rwp.PanelTopology{}
	}
	if b(2) {
		m.BurninProfile = &rwp.BurninProfile{}
	}
	if b(3) {
		m.SleepTimeout = &rwp.SleepTimeout{}
	}
	if b(4) {
		m.SleepState = &rwp.SleepState{}
	}
	if b(5) {
		m.Connections = &rwp.Connections{}
	}
	if b(6) {
		m.HeartBeatTimer = &rwp.HeartBeatTimer{}
	}
	if b(7) {
		m.DimmedGain = &rwp.DimmedGain{}
	}
	if b(8) {
		m.RunTimeStats = &rwp.RunTimeStats{}
	}
	if b(9) {
		m.SysStat = &rwp.SystemStat{}
	}
	if b(10) {
		m.Message = &rwp.Message{}
	}
	if b(11) {
		m.ErrorMessage = &rwp.Message{}
	}
	if b(12) {
		m.EnvironmentalHealth = &rwp.Environment{}
	}
	if b(13) {
		m.CalibrationProfile = &rwp.CalibrationProfile{}
	}
	if b(14) {
		m.DefaultCalibrationProfile = &rwp.CalibrationProfile{}
	}
	if b(15) {
		m.NetworkConfig = &rwp.NetworkConfig{}
	}
	if b(16) {
		m.BusStatus = &rwp.BusStatus{}
	}
	if b(17) {
		m.PanelInfo = &rwp.PanelInfo{RawPanelSupport: &rwp.RawPanelSupport{}}
	}
	if b(18) {
		m.Events = []*rwp.HWCEvent{{}, {Binary: &rwp.BinaryEvent{}}, {Pulsed: &rwp.PulsedEvent{}, Absolute: &rwp.AbsoluteEvent{}, Speed: &rwp.SpeedEvent{}, RawAnalog: &rwp.RawAnalogEvent{}}}
	}
	if b(19) {
		m.Registers = []*rwp.Register{{}, {Reg: 1}, {Reg: 2}, {Reg: 3}}
	}
	return m
}

func genC03(tier string, rng *Rng) {
	thorough := tier == "thorough"
	scale := 1
	if thorough {
		scale = 12
	}
	one := func(kind string, m *rwp.OutboundMessage) { emitC03(kind, []*rwp.OutboundMessage{m}) }

	// (1) events: every kind x id x edge x value grid, 6 events per message
	var evs []*rwp.HWCEvent
	flush := func(force bool) {
		for len(evs) >= 6 || (force && len(evs) > 0) {
			k := 6
			if k > len(evs) {
				k = len(evs)
			}
			one("events-grid", &rwp.OutboundMessage{Events: evs[:k]})
			evs = evs[k:]
		}
	}
	for _, id := range idGrid {
		for _, ed := range edgeGrid {
			for _, pr := range []bool{true, false} {
				evs = append(evs, &rwp.HWCEvent{HWCID: id, Binary: &rwp.BinaryEvent{Pressed: pr, Edge: rwp.BinaryEvent_EdgeID(ed)}})
				flush(false)
			}
		}
		for _, v := range i32Grid {
			evs = append(evs, &rwp.HWCEvent{HWCID: id, Pulsed: &rwp.PulsedEvent{Value: v}}, &rwp.HWCEvent{HWCID: id, Speed: &rwp.SpeedEvent{Value: v}})
			flush(false)
		}
		for _, v := range u32Grid {
			evs = append(evs, &rwp.HWCEvent{HWCID: id, Absolute: &rwp.AbsoluteEvent{Value: v}}, &rwp.HWCEvent{HWCID: id, RawAnalog: &rwp.RawAnalogEvent{Value: v}})
			flush(false)
		}
	}
	flush(true)

	// (1b) PAIRS of adjacent binary events in one message: every (pressed, edge) x (pressed, edge), same id and
	// different ids, alone and between other events (seed C03-14: an adjacent Down + Up of one component
	// written as the compact "Press" line carried only the Down's edge; the single-event grid above never
	// puts a Down directly before an Up of the same component with another edge)
	for _, same := range []bool{true, false} {
		for _, e1 := range edgeGrid {
			for _, e2 := range edgeGrid {
				for pp := 0; pp < 4; pp++ {
					id2 := uint32(12)
					if !same {
						id2 = 13
					}
					a := &rwp.HWCEvent{HWCID: 12, Binary: &rwp.BinaryEvent{Pressed: pp&1 != 0, Edge: rwp.BinaryEvent_EdgeID(e1)}}
					b := &rwp.HWCEvent{HWCID: id2, Binary: &rwp.BinaryEvent{Pressed: pp&2 != 0, Edge: rwp.BinaryEvent_EdgeID(e2)}}
					one("event-pairs", &rwp.OutboundMessage{Events: []*rwp.HWCEvent{a, b}})
					if same && e1 != e2 && pp == 1 {
						one("event-pairs", &rwp.OutboundMessage{Events: []*rwp.HWCEvent{{HWCID: 12, Pulsed: &rwp.PulsedEvent{Value: 1}}, a, b, a, b, {HWCID: 12, Absolute: &rwp.AbsoluteEvent{Value: 5}}}})
					}
				}
			}
		}
	}

	// (2) all 2^13 capability subsets
	for bits := 0; bits < 1<<13; bits++ {
		f := make([]bool, 13)
		for i := range f {
			f[i] = bits&(1<<i) != 0
		}
		one("caps-all-subsets", &rwp.OutboundMessage{PanelInfo: &rwp.PanelInfo{RawPanelSupport: supFrom(f)}})
	}

	// (3) panel types, health modes, flow words incl. unknown values
	for _, t := range []int32{0, 1, 2, 3, 4, 5, 6, 7, -1, 100, math.MaxInt32, math.MinInt32} {
		one("panel-type", &rwp.OutboundMessage{PanelInfo: &rwp.PanelInfo{PanelType: rwp.PanelInfo_PanelTypeE(t)}})
		one("health", &rwp.OutboundMessage{EnvironmentalHealth: &rwp.Environment{RunMode: rwp.Environment_RunModeE(t)}})
		one("flow", &rwp.OutboundMessage{FlowMessage: rwp.OutboundMessage_FlowMsg(t)})
		one("reg-kind", &rwp.OutboundMessage{Registers: []*rwp.Register{{Reg: rwp.Register_RegisterE(t), Id: "A1", Value: 7}}})
	}

	// (4) SysStat float sweeps: rounding boundaries of %.1f in [-200,200] with both neighbours,
	//     %.2f boundaries in [-20,20], and a stride over all bit patterns
	nb := func(f float32, d int) float32 {
		return math.Float32frombits(uint32(int64(math.Float32bits(f)) + int64(d)))
	}
	for t := -2000; t <= 2000; t++ {
		f := float32((float64(t) + 0.5) / 10)
		g := float32((float64(t) + 0.5) / 100)
		for d := -1; d <= 1; d++ {
			one("sysstat-float-boundary", &rwp.OutboundMessage{SysStat: &rwp.SystemStat{CPUTemp: nb(f, d), ExtTemp: float32(t) / 10, CPUVoltage: nb(g, d)}})
		}
	}
	stride := uint32(1 << 18)
	if thorough {
		stride = 1 << 14
	}
	for b := uint64(0); b < 1<<32; b += uint64(stride) {
		bb := uint32(b)
		one("sysstat-float-stride", &rwp.OutboundMessage{SysStat: &rwp.SystemStat{CPUTemp: math.Float32frombits(bb), ExtTemp: math.Float32frombits(bb + uint32(rng.Intn(int(stride)))), CPUVoltage: math.Float32frombits(bb ^ 0x80000000)}})
	}
	for i := 0; i < 1500*scale; i++ {
		one("sysstat-random", &rwp.OutboundMessage{SysStat: randSys(rng)})
	}

	// (5) availability maps of every small size
	for n := 0; n <= 12; n++ {
		for i := 0; i < 40*scale; i++ {
			one("map", &rwp.OutboundMessage{HWCavailability: randMap(rng, n)})
		}
	}
	for i := 0; i < 20*scale; i++ {
		emitC03("map-consecutive-messages", []*rwp.OutboundMessage{{HWCavailability: randMap(rng, 3)}, {HWCavailability: randMap(rng, 2)}, {HWCavailability: randMap(rng, 4)}})
	}

	// (6) registers
	for i := 0; i < 600*scale; i++ {
		one("registers", &rwp.OutboundMessage{Registers: []*rwp.Register{randReg(rng), randReg(rng)}})
	}

	// (7) random composite messages, 1-4 per call
	for i := 0; i < 5000*scale; i++ {
		n := rng.Range(1, 4)
		var ms []*rwp.OutboundMessage
		for j := 0; j < n; j++ {
			ms = append(ms, randMsg(rng, []int{10, 25, 50, 90}[rng.Intn(4)]))
		}
		emitC03("composite", ms)
	}

	// (7b) HISTORIES of calls: one message object encoded, one of its fields edited IN PLACE, encoded again;
	// fresh messages that agree with the previous one in all but one field (seeds C03-9 / C07-9: lines
	// cached by object identity or by part of the content).  Every call is an ordinary case.
	for i := 0; i < 150*scale; i++ {
		m := randMsg(rng, 60)
		if m.PanelTopology == nil || i%2 == 0 {
			m.PanelTopology = &rwp.PanelTopology{Svgbase: "<svg><g id=\"a\"/></svg>", Json: "{\"HWc\":[{\"id\":1}]}"}
		}
		if m.PanelInfo == nil {
			m.PanelInfo = &rwp.PanelInfo{Model: "M1", Serial: "S1", Name: "N1"}
		}
		one("history-first", m)
		for k := 0; k < 3; k++ {
			switch (i + k) % 6 {
			case 0:
				m.PanelTopology.Json = fmt.Sprintf("{\"HWc\":[{\"id\":%d}]}", 10*i+k)
			case 1:
				m.PanelTopology.Svgbase = fmt.Sprintf("<svg><g id=\"b%d\"/></svg>", k)
			case 2:
				m.PanelInfo.Model = fmt.Sprintf("M%d", 10*i+k)
			case 3:
				m.PanelInfo.Serial, m.PanelInfo.Name = fmt.Sprintf("S%d", k), fmt.Sprintf("N%d", i)
			case 4:
				m.Events = append(m.Events, &rwp.HWCEvent{HWCID: uint32(40 + k), Pulsed: &rwp.PulsedEvent{Value: int32(k - 1)}})
			default:
				m.Registers = append(m.Registers, &rwp.Register{Reg: rwp.Register_RegisterE(k % 4), Id: "A", Value: uint32(i)})
			}
			one("history-edited-in-place", m)
			c := proto.Clone(m).(*rwp.OutboundMessage)
			c.PanelTopology.Json += " "
			one("history-fresh-near-copy", c)
		}
	}

	// (8) outside the representable domain (correspondence only)
	for i := 0; i < 3000*scale; i++ {
		one("odd", oddMsg(rng))
	}

	// (9) C06: presence patterns and mutated wire bytes through proto.Unmarshal
	for i := 0; i < 20; i++ {
		one("presence-single", viaWire(presenceMsg(1<<i), rng, 0))
		for j := i + 1; j < 20; j++ {
			one("presence-pair", viaWire(presenceMsg(1<<i|1<<j), rng, 0))
		}
	}
	for i := 0; i < 1500*scale; i++ {
		one("presence-random", viaWire(presenceMsg(rng.Intn(1<<20)), rng, 0))
	}
	for i := 0; i < 4000*scale; i++ {
		src := randMsg(rng, 40)
		if rng.Intn(3) == 0 {
			src = oddMsg(rng)
		}
		if m := viaWire(src, rng, rng.Range(1, 4)); m != nil {
			one("wire-mutated", m)
		} else {
			c03stats["wire-mutation-rejected-by-unmarshal"]++
		}
	}
	// Go-constructed nil pointers (not wire-reachable): the model's panic sites
	one("nil-message", nil)
	emitC03("nil-message", []*rwp.OutboundMessage{{FlowMessage: 1}, nil})
	one("nil-event", &rwp.OutboundMessage{Events: []*rwp.HWCEvent{{HWCID: 1, Pulsed: &rwp.PulsedEvent{Value: 1}}, nil}})
	one("nil-register", &rwp.OutboundMessage{Registers: []*rwp.Register{nil}})
	emitC03("empty-call", nil)

	st := map[string]interface{}{}
	for k, v := range c03stats {
		st[k] = v
	}
	meta(map[string]interface{}{"property": "C03", "cases_by_generator": st})
}
