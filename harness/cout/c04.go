package main

// C04 (+ decoder half of C06): run RawPanelASCIIstringsToOutboundMessages on generated line
// lists; case = (c04 ((l #line)...) ((#value #json|nil)...) (msgs msg...)|panic)

import (
	"fmt"
	"math"
	"math/big"
	"strings"

	rwp "github.com/SKAARHOJ/rawpanel-lib/ibeam_rawpanel"
)

func init() {
	props["C04"] = genC04
	replays["C04"] = replayC04
}

var c04stats = map[string]int{}

func emitC04(kind string, lines []string) {
	c04stats[kind]++
	c04stats["lines"] += len(lines)
	var lsx, nt []Sx
	seen := map[string]bool{}
	for _, l := range lines {
		lsx = append(lsx, Sx(L(Sym("l"), []byte(l))))
		if strings.HasPrefix(l, "_networkConfig=") {
			v := strings.TrimPrefix(l, "_networkConfig=")
			if !seen[v] {
				seen[v] = true
				// json.Unmarshal oracle, observed through the decoder on this single line
				ms, ok := decSafe([]string{l})
				if ok && len(ms) == 1 && ms[0] != nil && ms[0].NetworkConfig != nil {
					nt = append(nt, Sx(L([]byte(v), []byte(netToken(ms[0].NetworkConfig)))))
				} else {
					nt = append(nt, Sx(L([]byte(v), symNil)))
				}
			}
		}
	}
	ms, ok := decSafe(lines)
	var out Sx = Sym("panic")
	if ok {
		out = c04print(ms)
		c04stats["messages"] += len(ms)
	} else {
		c04stats["panics"]++
	}
	emit(L(Sym("c04"), lsx, nt, out))
	// results of earlier calls printed again after this call (see harness/cin/c02.go): a message an
	// earlier caller holds must not change because the decoder was called again
	for i := range c04ring {
		h := &c04ring[i]
		var again Sx = Sym("panic")
		func() {
			defer func() { recover() }()
			again = c04print(h.msgs)
		}()
		if s := c04str(again); s != h.first {
			c04stats["earlier-result-altered"]++
			emit(L(Sym("c04"), h.lsx, h.nt, again))
			h.first = s
		}
	}
	if ok && len(lines) < 50 {
		c04ring = append(c04ring, c04held{lsx, nt, ms, c04str(out)})
		if len(c04ring) > 4 {
			c04ring = c04ring[1:]
		}
	}
}

type c04held struct {
	lsx, nt []Sx
	msgs    []*rwp.OutboundMessage
	first   string
}

var c04ring []c04held

func c04str(v Sx) string {
	var b strings.Builder
	sx(&b, v)
	return b.String()
}

func c04print(ms []*rwp.OutboundMessage) Sx {
	l := []Sx{Sym("msgs")}
	for _, m := range ms {
		if m != nil && !faithful(m) {
			l = append(l, Sx(Sym("unfaithful")))
		} else {
			l = append(l, msgSx(m))
		}
	}
	return l
}

func replayC04(line string) {
	n := parseSexp(line)
	if n == nil || !n.IsList || len(n.Kids) < 2 || n.Kids[0].Atom != "c04" {
		return
	}
	var ls []string
	for _, k := range n.Kids[1].Kids {
		if k.IsList && len(k.Kids) == 2 {
			ls = append(ls, string(k.Kids[1].Bytes()))
		}
	}
	emitC04("replay", ls)
}

var genKeys = []string{"_model", "_serial", "_version", "_platform", "_bluePillReady", "_name", "_panelType", "_support",
	"_isSleeping", "_sleepTimer", "_panelTopology_svgbase", "_panelTopology_HWC", "_burninProfile", "_networkConfig",
	"_calibrationProfile", "_defaultCalibrationProfile", "_serverModeLockToIP", "_serverModeMaxClients", "_heartBeatTimer",
	"DimmedGain", "_connections", "_bootsCount", "_totalUptimeMin", "_sessionUptimeMin", "_screenSaverOnMin", "ErrorMsg", "Msg",
	"EnvironmentalHealth", "SysStat"}
var textKeys = []string{"_model", "_serial", "_version", "_platform", "_name", "_panelTopology_svgbase", "_panelTopology_HWC",
	"_burninProfile", "_calibrationProfile", "_defaultCalibrationProfile", "ErrorMsg", "Msg"}
var numKeys = []string{"_sleepTimer", "_serverModeMaxClients", "_heartBeatTimer", "DimmedGain", "_bootsCount", "_totalUptimeMin",
	"_sessionUptimeMin", "_screenSaverOnMin"}
var capNames = []string{"ASCII", "Binary", "JSONFeedback", "JSONonInbound", "JSONonOutbound", "System", "RawADCValues",
	"BurninProfile", "EnvHealth", "Registers", "Calibration", "Processors", "NetworkSettings"}
var ssNames = []string{"CPUUsage", "CPUTemp", "ExtTemp", "CPUVoltage", "CPUFreqCurrent", "CPUFreqMin", "CPUFreqMax", "MemTotal",
	"MemFree", "MemAvailable", "MemBuffers", "MemCached", "UnderVoltageNow", "UnderVoltage", "FreqCapNow", "FreqCap",
	"ThrottledNow", "Throttled", "SoftTempLimitNow", "SoftTempLimit"}
var evKinds = []string{"Down", "Up", "Press", "Enc", "Abs", "Speed", "Raw"}

var numStrs = []string{"0", "1", "2", "7", "9", "10", "007", "255", "65535", "2147483647", "2147483648", "4294967295"}
var badNumStrs = []string{"", "4294967296", "18446744073709551616", "9223372036854775807", "9223372036854775808",
	"99999999999999999999999999", "-1", "+1", "-0", "1,2", "1 ", " 1", "0x10", "1e3", "abc", "1.5", "٣"}
var sNumStrs = []string{"0", "1", "-1", "5", "-5", "100", "-100", "2147483647", "-2147483648", "-2147483647", "00012", "-007"}
var badSNumStrs = []string{"", "-", "--5", "5-3", "-2147483649", "2147483648", "4294967295", "-9223372036854775808",
	"-9223372036854775809", "99999999999999999999", "-99999999999999999999", "+5", "1-", "-0-"}

func pickS(r *Rng, xs []string) string { return xs[r.Intn(len(xs))] }

func goodNum(r *Rng) string {
	if r.Intn(3) == 0 {
		return fmt.Sprint(uint32(r.U64()))
	}
	return pickS(r, numStrs)
}
func goodSNum(r *Rng) string {
	if r.Intn(3) == 0 {
		return fmt.Sprint(int32(uint32(r.U64())))
	}
	return pickS(r, sNumStrs)
}

// exact decimal expansion of a finite binary rational
func exactDecimal(x *big.Float) string {
	s := x.Text('f', 200)
	if strings.Contains(s, ".") {
		s = strings.TrimRight(s, "0")
		if strings.HasSuffix(s, ".") {
			s += "0"
		}
	}
	return s
}

// numerals around the midpoint between float32 f and its successor: the midpoint itself
// (tie), the midpoint with its last digit lowered / raised, and the midpoint followed by a
// tail of digits far below float64 precision (a decoder that rounds through float64 first
// lands ON the midpoint and then ties to even)
func midpointNumerals(f float32) []string {
	g := math.Float32frombits(math.Float32bits(f) + 1)
	if math.IsInf(float64(g), 0) || math.IsNaN(float64(g)) || math.IsInf(float64(f), 0) || math.IsNaN(float64(f)) {
		return nil
	}
	a := new(big.Float).SetPrec(400).SetFloat64(float64(f))
	b := new(big.Float).SetPrec(400).SetFloat64(float64(g))
	m := new(big.Float).SetPrec(400).Add(a, b)
	m.Quo(m, big.NewFloat(2))
	s := exactDecimal(m)
	if !strings.Contains(s, ".") {
		s += ".0"
	}
	out := []string{s, s + "0000000000000000000001", s + "000000000000000000000000000000000000001"}
	// last digit -1 / +1 (no carry handling needed: skip when the digit is 0 or 9)
	last := s[len(s)-1]
	if last > '0' && last < '9' {
		out = append(out, s[:len(s)-1]+string(last-1), s[:len(s)-1]+string(last+1))
	}
	// strictly below the midpoint by an amount invisible to float64
	if last > '0' {
		out = append(out, s[:len(s)-1]+string(last-1)+"99999999999999999999999999")
	}
	// 17 significant digits (what a float64 round trip prints)
	out = append(out, fmt.Sprintf("%.17g", (float64(f)+float64(g))/2))
	return out
}

// a strictly well-formed event line
func wfEvent(r *Rng) string {
	id := goodNum(r)
	switch k := pickS(r, evKinds); k {
	case "Down", "Up", "Press":
		if r.Bool() {
			return "HWC#" + id + "=" + k
		}
		return "HWC#" + id + "." + pickS(r, []string{"0", "1", "2", "4", "8", "16", "3", "255", "2147483647", "01"}) + "=" + k
	case "Enc", "Speed":
		return "HWC#" + id + "=" + k + ":" + goodSNum(r)
	default:
		return "HWC#" + id + "=" + k + ":" + goodNum(r)
	}
}

func dec1(v int) string { // tenths -> "d.d"
	s := ""
	if v < 0 {
		s, v = "-", -v
	}
	return fmt.Sprintf("%s%d.%d", s, v/10, v%10)
}
func dec2(v int) string {
	s := ""
	if v < 0 {
		s, v = "-", -v
	}
	return fmt.Sprintf("%s%d.%02d", s, v/100, v%100)
}

func ssGoodValue(r *Rng, i int) string {
	switch {
	case i == 0:
		return goodNum(r)
	case i <= 2:
		return dec1(r.Range(-9999, 9999))
	case i == 3:
		return dec2(r.Range(-9999, 9999))
	case i < 12:
		return goodSNum(r)
	default:
		return pickS(r, []string{"0", "1", "1", "00", "01"})
	}
}

// a well-formed SysStat line: random subset, order, duplicates
func wfSysStat(r *Rng) string {
	n := r.Range(0, 24)
	var b strings.Builder
	b.WriteString("SysStat=")
	if n == 0 {
		i := r.Intn(20)
		b.WriteString(ssNames[i] + ":" + ssGoodValue(r, i))
		return b.String()
	}
	for j := 0; j < n; j++ {
		i := r.Intn(20)
		if j > 0 {
			b.WriteString(":")
		}
		b.WriteString(ssNames[i] + ":" + ssGoodValue(r, i))
	}
	if r.Bool() {
		b.WriteString(":")
	}
	return b.String()
}

func wfCaps(r *Rng) string {
	n := r.Range(1, 16)
	var parts []string
	for i := 0; i < n; i++ {
		switch r.Intn(12) {
		case 0:
			parts = append(parts, pickS(r, []string{"Foo", "ascii", "", "ASCII ", "Binary2", "JSON"}))
		default:
			parts = append(parts, capNames[r.Intn(13)])
		}
	}
	return "_support=" + strings.Join(parts, ",")
}

func wfList(r *Rng, key string) string {
	n := r.Range(1, 5)
	var parts []string
	for i := 0; i < n; i++ {
		parts = append(parts, elemText(r))
	}
	return key + "=" + strings.Join(parts, ";")
}

func wfReg(r *Rng) string {
	switch r.Intn(4) {
	case 0:
		return "Flag#" + pickS(r, []string{"0", "1", "7", "007", "10", "255", "4294967295", "99999999999999999999"}) + "=" + goodNum(r)
	case 1:
		return "Mem" + randID(r) + "=" + goodNum(r)
	case 2:
		return "Shift" + randID(r) + "=" + goodNum(r)
	default:
		return "State" + randID(r) + "=" + goodNum(r)
	}
}

func noLF(s string) string { return strings.ReplaceAll(s, "\n", " ") }

// one strictly well-formed line of any family
func wfLine(r *Rng) string {
	switch r.Intn(14) {
	case 0:
		return pickS(r, []string{"ping", "ack", "nack", "BSY", "RDY", "list", ""})
	case 1, 2, 3:
		return wfEvent(r)
	case 4:
		return "map=" + goodNum(r) + ":" + goodNum(r)
	case 5:
		return pickS(r, textKeys) + "=" + noLF(randText(r, 20))
	case 6:
		return pickS(r, numKeys) + "=" + goodNum(r)
	case 7:
		return pickS(r, []string{"_bluePillReady", "_isSleeping"}) + "=" + pickS(r, []string{"0", "1", "00", "01"})
	case 8:
		if r.Bool() {
			return "_panelType=" + pickS(r, []string{"BPI", "Physical", "Emulation", "Touch", "Composite"})
		}
		return "EnvironmentalHealth=" + pickS(r, []string{"Normal", "Safemode", "Blocked"})
	case 9:
		return wfCaps(r)
	case 10:
		return wfList(r, pickS(r, []string{"_serverModeLockToIP", "_connections"}))
	case 11, 12:
		return wfSysStat(r)
	default:
		return wfReg(r)
	}
}

// a line whose keyword / key is not part of the grammar
func nonGrammarLine(r *Rng) string {
	switch r.Intn(8) {
	case 0:
		return pickS(r, []string{"HWCx#5=3", "HWCc#1=130", "HWCt#1=Hello", "HWCg#1=0:AAAA", "Clear", "ActivePanel=1", "PING", "Ack", "list ", " ping", "pong", "HWC", "map", "map:1=2", "{}", "[]", "foo", "=", "=x", "x"})
	case 1:
		return "HWC#" + goodNum(r) + "=" + pickS(r, []string{"Foo", "down", "DOWN", "Pressed", "Hold", "Release", "Tap"}) + pickS(r, []string{"", ":1"})
	case 2:
		return pickS(r, []string{"Model", "_Model", "_models", "model", "_sleeptimer", "_support2", "Sysstat", "Message", "_panelTopology", "_panel", "SleepTimer", "HeartBeatTimer", "_dimmedGain"}) + "=" + randText(r, 6)
	case 3:
		return pickS(r, []string{"Memx", "mem", "MemA b", "Flag", "Flag 1", "Shifted", "States", "STATE", "Mema"}) + "=" + goodNum(r)
	case 4:
		return noLF(randText(r, 12)) + " zzz"
	case 5:
		return pickS(r, genKeys) + " =" + randText(r, 5)
	case 6:
		return " " + pickS(r, genKeys) + "=" + randText(r, 5)
	default:
		return pickS(r, genKeys)
	}
}

var floatZoo = []string{"0", "-0", "+0", "1", "1.", ".5", "-.5", ".", "-", "+", "1e5", "1E5", "1e+5", "1e-5", "1e", "1e+", "1e400", "1e-400", "-1e400",
	"1e39", "3.4028235e38", "3.4028236e38", "3.40282356779733661637539395458142568448e38", "1e-45", "7e-46", "7.1e-46", "1.4e-45", "1e-46",
	"0x1p-2", "0X1P+2", "0x1.8p1", "0x.8p1", "0x1p", "0x1", "0x", "0xp1", "0x1.fffffep127", "0x1.ffffffp127", "0x1p-149", "0x1p-150", "0x1.8p-150", "0x1p128", "0x1p-200",
	"0x1_0p0", "0x_1p0", "0x1p1_0", "1_000", "1__0", "_1", "1_", "1_.5", "1._5", "1_0.5", "1e1_0", "0_1", "0b1", "0o7", "0b_1",
	"inf", "Inf", "INF", "+inf", "-inf", "infinity", "-Infinity", "infinit", "infin", "infx", "in", "nan", "NaN", "NAN", "-nan", "+nan", "nanx", "na",
	"12.34", "12.345", "12.35", "12.25", "0.05", "0.15", "0.25", "-0.05", "1e10", "123456789012345678901234567890", "0.000000000000000000000000000000000000000000001",
	"1.17549435e-38", "1.17549428e-38", "16777216", "16777217", "16777218", "16777219", "9007199254740993", "33554433.5",
	"1.00000005960464477539062500", "1.000000059604644775390625", "1.0000000596046447753906250000001", "1.5e", "1.5e5x", " 1", "1 ", "１", "1,5", "--1", "+-1", "1e5.5"}

// structured malformed stream: almost-grammatical lines
func malformedLine(r *Rng) string {
	seps := []string{"", "=", ":", ".", ",", ";", "#", " ", "\n", "\r", "\x00", "\t", "é", "\xff", "\xc2", "==", "=:", ".=", "-", "+"}
	sp := func() string { return pickS(r, seps) }
	num := func() string {
		if r.Bool() {
			return goodNum(r)
		}
		return pickS(r, badNumStrs)
	}
	snum := func() string {
		if r.Bool() {
			return goodSNum(r)
		}
		return pickS(r, badSNumStrs)
	}
	switch r.Intn(16) {
	case 0:
		return "HWC#" + num() + sp() + num() + sp() + pickS(r, evKinds) + sp() + snum()
	case 1:
		return "HWC#" + num() + pickS(r, []string{"", ".", "x", "é", "\n", "=", "5", "\xff", "日", "..", ".-"}) + pickS(r, []string{"", "1", "16", "x", "99999999999"}) + "=" + pickS(r, evKinds) + pickS(r, []string{"", ":", ":" + snum(), snum(), ":" + snum() + "\n", ": 1"})
	case 2:
		return "HWC#" + num() + "=" + pickS(r, evKinds) + ":" + snum()
	case 3:
		return "map" + sp() + num() + sp() + num() + pickS(r, []string{"", "\n", " ", ":1"})
	case 4:
		return pickS(r, genKeys) + sp() + pickS(r, []string{"", "0", "1", "abc", "a\nb", "\n", " ", "=", "x=y", "\x00", "\xff\xfe", strings.Repeat("9", 60)})
	case 5:
		return pickS(r, numKeys) + "=" + num()
	case 6:
		return pickS(r, []string{"_bluePillReady", "_isSleeping"}) + "=" + pickS(r, []string{"2", "-1", "true", "yes", "10", "0x1", " 1", ""})
	case 7:
		return pickS(r, []string{"_panelType", "EnvironmentalHealth"}) + "=" + pickS(r, []string{"bpi", "BPI ", "Unknown", "Normal ", "normal", "Physical,Touch", "0", "", "Blocked\n"})
	case 8:
		return "_support=" + pickS(r, []string{",", ",,", "ASCII,", ",ASCII", "ASCII;Binary", "ASCII, Binary", "ASCII\n,Binary", "ascii", "ASCIIBinary"})
	case 9:
		return pickS(r, []string{"_serverModeLockToIP", "_connections"}) + "=" + pickS(r, []string{";", ";;", " ; ", "a;;b", " a;b ", "a ;b", "a; b", " a ;b", "a ;　b", "\u0085", "a;\xc2", "\xa0a", "a\xc2\xa0\xa0", ";a;", "a\tb;\tc\t", "a\n;b", "\xe2\x80\x80\x85;a", "\xe1\x9a\x80x\xe1\x9a", "x\xe2\x80"})
	case 10:
		// SysStat with odd values / structure
		i := r.Intn(20)
		v := pickS(r, floatZoo)
		if r.Intn(3) == 0 {
			v = pickS(r, append(append([]string{}, badSNumStrs...), "2", "-1", "1.5", "abc", "CPUTemp", "Throttled"))
		}
		return "SysStat=" + pickS(r, []string{"", ":", "x:"}) + ssNames[i] + ":" + v + pickS(r, []string{"", ":", "::", ":" + ssNames[r.Intn(20)], ":" + ssNames[r.Intn(20)] + ":1"})
	case 11:
		return "SysStat=" + pickS(r, []string{"CPUTemp", "ExtTemp", "CPUVoltage"}) + ":" + pickS(r, floatZoo)
	case 12:
		return pickS(r, []string{"Flag#", "Mem", "Shift", "State"}) + pickS(r, []string{"", "A", "1", "a", "A b", "Ä", "=", "#", "99999999999999999999"}) + sp() + num()
	case 13:
		b := r.Bytes(r.Range(0, 24))
		return string(b)
	case 14:
		l := wfLine(r)
		if len(l) == 0 {
			return "\n"
		}
		bs := []byte(l)
		switch r.Intn(4) {
		case 0:
			bs[r.Intn(len(bs))] = byte(r.U64())
		case 1:
			p := r.Intn(len(bs))
			bs = append(bs[:p], bs[p+1:]...)
		case 2:
			p := r.Intn(len(bs) + 1)
			bs = append(bs[:p], append([]byte(pickS(r, seps)), bs[p:]...)...)
		case 3:
			bs = append(bs, []byte(pickS(r, []string{"\n", "\r", " ", "\x00", "\r\n"}))...)
		}
		return string(bs)
	default:
		return pickS(r, []string{"ping\n", "ack ", "\nack", "list\x00", "BSY\r", "RDY\r\n", "HWC#", "HWC#=", "HWC#1", "HWC#1=", "HWC#=Down", "map=", "map=:", "map=1:", "map=:1", "=", "\n", "\x00",
			"HWC#" + strings.Repeat("1", 400) + "=Down", "HWC#1." + strings.Repeat("7", 300) + "=Up", "HWC#1=Enc:" + strings.Repeat("-", 50), "Mem" + strings.Repeat("Z", 500) + "=1",
			"_model=" + strings.Repeat("x", 5000), "SysStat=" + strings.Repeat("CPUTemp:1.5:", 300), "_support=" + strings.Repeat("ASCII,", 500)})
	}
}

func genC04(tier string, rng *Rng) {
	thorough := tier == "thorough"
	scale := 1
	if thorough {
		scale = 12
	}
	one := func(kind, l string) { emitC04(kind, []string{l}) }

	// (0a) document lines of every size class (20 bytes ... 20 kB, around 160 / 255 / 256 / 1024), five keys, each
	// decoded several times in a row so that some calls fall on the debug-on tick
	for _, key := range []string{"_panelTopology_HWC=", "_panelTopology_svgbase=", "_burninProfile=", "_calibrationProfile=", "_defaultCalibrationProfile="} {
		for _, n := range []int{20, 159, 160, 161, 255, 256, 257, 1023, 1024, 5000, 20000} {
			doc := "{\"k\":\"" + strings.Repeat("x", n) + "\"}"
			for rep := 0; rep < 5; rep++ {
				one("long-documents", key+doc[:n])
			}
		}
	}
	// (0) list-valued lines: EVERY sequence of up to four items over {empty, blank, plain, padded, tab-padded}
	// (an empty item followed by an empty or padded one, doubled and trailing separators, ...)
	{
		items := []string{"", " ", "192.168.10.4", " 10.0.0.7 ", "h\t", "\u00a0x"}
		var rec func(prefix []string, depth int)
		rec = func(prefix []string, depth int) {
			if len(prefix) > 0 {
				v := strings.Join(prefix, ";")
				one("list-items-exhaustive", "_connections="+v)
				if len(prefix) < 4 || thorough {
					one("list-items-exhaustive", "_serverModeLockToIP="+v)
				}
			}
			if depth == 0 {
				return
			}
			for _, it := range items {
				rec(append(append([]string{}, prefix...), it), depth-1)
			}
		}
		rec(nil, 4)
	}
	// (1) events: every kind x id x (no edge | edge) x value grids, well-formed and not
	ids := []string{"0", "1", "5", "007", "255", "4294967295", "4294967296", "99999999999999999999"}
	edges := []string{"", ".0", ".1", ".2", ".4", ".8", ".16", ".3", ".2147483647", ".2147483648", ".4294967295", ".4294967296", "x1", ".", ".x"}
	for _, id := range ids {
		for _, k := range evKinds {
			for _, e := range edges {
				one("event-grid", "HWC#"+id+e+"="+k)
				one("event-grid", "HWC#"+id+e+"="+k+":5")
			}
			for _, v := range sNumStrs {
				one("event-grid", "HWC#"+id+"="+k+":"+v)
			}
			for _, v := range badSNumStrs {
				one("event-grid", "HWC#"+id+"="+k+":"+v)
			}
			for _, v := range []string{"4294967295", "4294967296", "2147483648", "3000000000"} {
				one("event-grid", "HWC#"+id+"="+k+":"+v)
			}
		}
	}
	// (2) map lines
	for _, a := range append(append([]string{}, numStrs...), badNumStrs...) {
		for _, b := range append(append([]string{}, numStrs...), badNumStrs...) {
			one("map-grid", "map="+a+":"+b)
		}
	}
	// (3) every key x value classes
	vals := append(append(append([]string{}, numStrs...), badNumStrs...), "x", " test1 ", "a=b", "BPI", "Physical", "Emulation", "Touch", "Composite",
		"Normal", "Safemode", "Blocked", "ASCII,Binary", "a;b", "CPUTemp:1.5", "{\"dhcp\":true}", "{\"address\":\"1.2.3.4\",\"netmask\":\"255.0.0.0\"}", "{", "null", "[]", "{\"dhcp\":1}")
	for _, k := range genKeys {
		for _, v := range vals {
			one("key-grid", k+"="+v)
		}
	}
	// (4) capability lists: singles, all, permutations, unknown names
	for _, c := range capNames {
		one("caps", "_support="+c)
	}
	for i := 0; i < 1500*scale; i++ {
		one("caps", wfCaps(rng))
	}
	// (5) SysStat: decimal temperatures -1000.0 .. 1000.0 step 0.1 on both temperature fields,
	//     voltages -100.00 .. 100.00 step 0.01; then random field subsets / orders / duplicates
	for t := -10000; t <= 10000; t += 3 {
		one("sysstat-decimal-sweep", "SysStat=CPUTemp:"+dec1(t)+":ExtTemp:"+dec1(t+1)+":CPUVoltage:"+dec2(t+2)+":ExtTemp:"+dec1(t+2)+":")
	}
	vstep := 7
	if thorough {
		vstep = 1
	}
	for v := -10000; v <= 10000; v += vstep {
		one("sysstat-decimal-sweep", "SysStat=CPUVoltage:"+dec2(v))
	}
	if thorough {
		for t := -99999; t <= 99999; t += 5 {
			one("sysstat-decimal-sweep", "SysStat=CPUTemp:"+dec1(t)+":CPUVoltage:"+dec2(t*10+rng.Intn(10)))
		}
	}
	for i := 0; i < 3000*scale; i++ {
		one("sysstat-fields", wfSysStat(rng))
	}
	// all 20 fields, each alone with each of a few values
	for i, n := range ssNames {
		for _, v := range []string{"0", "1", "2", "-1", "1.5", "abc", "", "12.3", "-12.34", "4294967295", "-2147483648"} {
			one("sysstat-single", "SysStat="+n+":"+v)
			one("sysstat-single", "SysStat="+n+":"+v+":")
			_ = i
		}
	}
	// (6) float syntax zoo (strconv.ParseFloat validation)
	for _, f := range floatZoo {
		for _, sg := range []string{"", "-", "+"} {
			one("float-zoo", "SysStat=CPUTemp:"+sg+f)
		}
	}
	// (6b) long numerals at float32 rounding midpoints (nearest-even, single rounding)
	nmid := 400
	if thorough {
		nmid = 6000
	}
	for i := 0; i < nmid; i++ {
		var f float32
		switch rng.Intn(4) {
		case 0:
			f = float32(rng.Range(-20000, 20000)) / 100
		case 1:
			f = math.Float32frombits(uint32(rng.U64()) & 0x7fffffff % 0x7f000000)
		case 2:
			f = float32(rng.Range(1, 200)) + float32(rng.Intn(1<<20))/float32(1<<20)
		default:
			f = math.Float32frombits(0x42600000 + uint32(rng.Intn(1<<16))) // around 56.0
		}
		f = float32(math.Abs(float64(f)))
		for _, s := range midpointNumerals(f) {
			if strings.ContainsAny(s, "eE") {
				continue
			}
			fld := []string{"CPUTemp", "ExtTemp", "CPUVoltage"}[rng.Intn(3)]
			sg := ""
			if rng.Intn(4) == 0 {
				sg = "-"
			}
			one("float-midpoint", "SysStat="+fld+":"+sg+s+":")
		}
	}
	one("float-midpoint", "SysStat=CPUTemp:56.00000190734863282:")
	// (7) registers
	for i := 0; i < 800*scale; i++ {
		one("registers", wfReg(rng))
	}
	// (8) sound streams: well-formed lines interleaved with non-grammar lines, 1-8 lines per call
	for i := 0; i < 6000*scale; i++ {
		n := rng.Range(1, 8)
		var ls []string
		for j := 0; j < n; j++ {
			if rng.Intn(5) == 0 {
				ls = append(ls, nonGrammarLine(rng))
			} else {
				ls = append(ls, wfLine(rng))
			}
		}
		emitC04("sound-stream", ls)
	}
	for i := 0; i < 1500*scale; i++ {
		one("non-grammar", nonGrammarLine(rng))
	}
	// (9) what the library's own encoder emits, decoded again (round trip corollary)
	for i := 0; i < 1500*scale; i++ {
		ms := []*rwp.OutboundMessage{randMsg(rng, []int{10, 25, 50}[rng.Intn(3)])}
		if ls, ok := encSafe(ms); ok {
			emitC04("encoder-output", ls)
		}
	}
	// (10) malformed stream (C06): single lines and mixed lists
	for i := 0; i < 12000*scale; i++ {
		one("malformed", malformedLine(rng))
	}
	for i := 0; i < 1500*scale; i++ {
		n := rng.Range(2, 6)
		var ls []string
		for j := 0; j < n; j++ {
			if rng.Bool() {
				ls = append(ls, malformedLine(rng))
			} else {
				ls = append(ls, wfLine(rng))
			}
		}
		emitC04("malformed-mixed", ls)
	}
	emitC04("empty-call", nil)

	st := map[string]interface{}{}
	for k, v := range c04stats {
		st[k] = v
	}
	meta(map[string]interface{}{"property": "C04", "cases_by_generator": st})
}
