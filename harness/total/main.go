// harness: runs the IMPLEMENTATION (/repo, current working tree) on generated inputs and
// prints one s-expression case per line: (kind input... observed...).
// usage: harness <property> [-tier quick|thorough] [-seed N] [-replay file]
package main

import (
	"bufio"
	"flag"
	"fmt"
	"os"
	"strconv"
)

var out *bufio.Writer

// caseOut is the process's original standard output: the case stream.  After start-up os.Stdout itself
// points at /dev/null, so that anything the library under test prints there (a debug Println left in by a
// change, a logger) cannot land in the middle of a case line.
var caseOut *os.File

type genFunc func(tier string, rng *Rng)
type replayFunc func(line string) // re-run the implementation on the input part of a case

var props = map[string]genFunc{}
var replays = map[string]replayFunc{}

func main() {
	if len(os.Args) < 2 {
		fmt.Fprintln(os.Stderr, "usage: harness <property> [-tier t] [-seed n] [-replay f]")
		os.Exit(2)
	}
	prop := os.Args[1]
	fs := flag.NewFlagSet("harness", flag.ExitOnError)
	tier := fs.String("tier", "quick", "quick|thorough")
	seed := fs.Int64("seed", 0, "seed")
	replay := fs.String("replay", "", "file with case lines whose input part is re-executed")
	fs.Parse(os.Args[2:])
	if *seed == 0 {
		if s := os.Getenv("VERIF_SEED"); s != "" {
			if v, err := strconv.ParseInt(s, 10, 64); err == nil {
				*seed = v
			}
		}
	}
	if *seed == 0 {
		*seed = 1
	}
	caseOut = os.Stdout
	out = bufio.NewWriterSize(caseOut, 1<<20)
	defer out.Flush()
	if null, err := os.OpenFile(os.DevNull, os.O_WRONLY, 0); err == nil {
		os.Stdout = null
	}
	if *replay != "" {
		rf, ok := replays[prop]
		if !ok {
			fmt.Fprintln(os.Stderr, "no replay for", prop)
			os.Exit(2)
		}
		f, err := os.Open(*replay)
		if err != nil {
			fmt.Fprintln(os.Stderr, err)
			os.Exit(2)
		}
		sc := bufio.NewScanner(f)
		sc.Buffer(make([]byte, 1<<20), 1<<28)
		for sc.Scan() {
			if len(sc.Text()) > 0 && sc.Text()[0] == '(' {
				rf(sc.Text())
			}
		}
		return
	}
	g, ok := props[prop]
	if !ok {
		fmt.Fprintln(os.Stderr, "unknown property", prop)
		os.Exit(2)
	}
	g(*tier, NewRng(uint64(*seed)))
}
