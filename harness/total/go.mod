module verifharness

go 1.19

require (
	github.com/SKAARHOJ/rawpanel-lib v0.0.0
	github.com/s00500/env_logger v0.1.29
	github.com/sirupsen/logrus v1.9.3
	google.golang.org/protobuf v1.34.1
)

require (
	github.com/SKAARHOJ/ibeam-lib-utils v1.0.0 // indirect
	github.com/mattn/go-colorable v0.1.13 // indirect
	github.com/mattn/go-isatty v0.0.20 // indirect
	go.uber.org/atomic v1.11.0 // indirect
	golang.org/x/sys v0.20.0 // indirect
)

replace github.com/SKAARHOJ/rawpanel-lib => /repo
