package main

// C06: totality (no panic, no hang, no nil element) of the four converters and the
// streaming reader on arbitrary strings / wire-reachable messages, and agreement of
// concurrent calls (16 goroutines) with sequential calls.
//
// case: (c06 <kind> <input> <obs>)
//   kind  = decin | decout | reader | encin | encout
//   input = (#line ...) for decoders / reader, (#wire ...) for encoders (each #wire is the
//           protobuf wire encoding of one message, decoded with proto.Unmarshal)
//   obs   = (status n nils conc digest)
//           status: ok | panic | hang     n: number of results     nils: number of nil results
//           conc: 1 if 16 concurrent calls all returned the sequential result, 0 if not

import (
	"bufio"
	"bytes"
	"crypto/sha1"
	"encoding/base64"
	"encoding/hex"
	"encoding/json"
	"fmt"
	"os"
	"os/exec"
	"sort"
	"strconv"
	"strings"
	"sync"
	"sync/atomic"
	"time"

	rwl "github.com/SKAARHOJ/rawpanel-lib"
	rwp "github.com/SKAARHOJ/rawpanel-lib/ibeam_rawpanel"
	log "github.com/s00500/env_logger"
	"github.com/sirupsen/logrus"
	"google.golang.org/protobuf/proto"
	"google.golang.org/protobuf/reflect/protoreflect"
	"io"
)

func init() {
	props["C06"] = genC06
	props["C06child"] = childC06
	props["C06cold"] = childC06cold
	replays["C06"] = replayC06
	// the library logs warnings on STDOUT through env_logger; they would corrupt the case stream
	l := logrus.New()
	l.SetOutput(io.Discard)
	l.SetLevel(logrus.PanicLevel)
	log.ConfigureAllLoggers(l, "")
}

type c06res struct {
	status string
	n      int
	nils   int
	digest string
}

func digestStrings(ss []string) string {
	h := sha1.New()
	for _, s := range ss {
		fmt.Fprintf(h, "%d:%s|", len(s), s)
	}
	return fmt.Sprintf("%x", h.Sum(nil))[:16]
}

func digestIn(ms []*rwp.InboundMessage) (string, int) {
	h := sha1.New()
	nils := 0
	for _, m := range ms {
		if m == nil {
			nils++
			h.Write([]byte("nil|"))
			continue
		}
		b, _ := proto.MarshalOptions{Deterministic: true}.Marshal(m)
		fmt.Fprintf(h, "%d:%x|", len(b), b)
	}
	return fmt.Sprintf("%x", h.Sum(nil))[:16], nils
}
func digestOut(ms []*rwp.OutboundMessage) (string, int) {
	h := sha1.New()
	nils := 0
	for _, m := range ms {
		if m == nil {
			nils++
			h.Write([]byte("nil|"))
			continue
		}
		b, _ := proto.MarshalOptions{Deterministic: true}.Marshal(m)
		fmt.Fprintf(h, "%d:%x|", len(b), b)
	}
	return fmt.Sprintf("%x", h.Sum(nil))[:16], nils
}

// call runs f under recover() and a deadline.
func guarded(f func() c06res) c06res {
	ch := make(chan c06res, 1)
	go func() {
		defer func() {
			if r := recover(); r != nil {
				ch <- c06res{status: "panic"}
			}
		}()
		ch <- f()
	}()
	select {
	case r := <-ch:
		return r
	case <-time.After(5 * time.Second):
		atomic.AddInt32(&c06hangs, 1)
		return c06res{status: "hang"}
	}
}

// hang budget: every hung call keeps a goroutine spinning for the rest of the process, so after a
// few of them nothing more is learnt and everything gets slower (seed C06-11 hung on hundreds of
// inputs and the run hit the harness time limit before a single case was written).  A child stops
// after 3 hangs, the parent stops starting batches after 9; what was run is reported as usual.
var c06hangs int32

func c06hangBudgetSpent(limit int32) bool { return atomic.LoadInt32(&c06hangs) >= limit }

func unmarshalIn(wires [][]byte) []*rwp.InboundMessage {
	var ms []*rwp.InboundMessage
	for _, w := range wires {
		m := &rwp.InboundMessage{}
		if proto.Unmarshal(w, m) == nil {
			ms = append(ms, m)
		}
	}
	return ms
}
func unmarshalOut(wires [][]byte) []*rwp.OutboundMessage {
	var ms []*rwp.OutboundMessage
	for _, w := range wires {
		m := &rwp.OutboundMessage{}
		if proto.Unmarshal(w, m) == nil {
			ms = append(ms, m)
		}
	}
	return ms
}

func runKind(kind string, input [][]byte) c06res { return runKindKeep(kind, input, nil) }

// runKindKeep: as runKind; the decoders' result OBJECTS are also handed to keep as a function that digests
// them again later - after other calls have run (seed C06-14: a pooled scratch buffer leaked into the
// delivered image; the result is right when looked at immediately and changes under the holder's feet when
// any other call decodes a graphics line)
func runKindKeep(kind string, input [][]byte, keep func(late func() string)) c06res {
	hold := func(f func() string) {
		if keep != nil {
			keep(f)
		}
	}
	return guarded(func() c06res {
		switch kind {
		case "decin":
			ls := make([]string, len(input))
			for i, b := range input {
				ls[i] = string(b)
			}
			ms := rwl.RawPanelASCIIstringsToInboundMessages(ls)
			d, nils := digestIn(ms)
			hold(func() string { d2, _ := digestIn(ms); return d2 })
			return c06res{"ok", len(ms), nils, d}
		case "decout":
			ls := make([]string, len(input))
			for i, b := range input {
				ls[i] = string(b)
			}
			ms := rwl.RawPanelASCIIstringsToOutboundMessages(ls)
			d, nils := digestOut(ms)
			hold(func() string { d2, _ := digestOut(ms); return d2 })
			return c06res{"ok", len(ms), nils, d}
		case "reader":
			ar := &rwl.ASCIIreader{}
			var all []*rwp.InboundMessage
			for _, b := range input {
				all = append(all, ar.Parse(string(b))...)
			}
			d, nils := digestIn(all)
			hold(func() string { d2, _ := digestIn(all); return d2 })
			return c06res{"ok", len(all), nils, d}
		case "encin":
			ss := rwl.InboundMessagesToRawPanelASCIIstrings(unmarshalIn(input))
			return c06res{"ok", len(ss), 0, digestStrings(ss)}
		case "encout":
			ss := rwl.OutboundMessagesToRawPanelASCIIstrings(unmarshalOut(input))
			// the availability map is a Go map: its "map=" lines come out in a different order on
			// every call, sequential or not; compare the result as a multiset of lines
			sorted := append([]string{}, ss...)
			sort.Strings(sorted)
			return c06res{"ok", len(ss), 0, digestStrings(sorted)}
		}
		panic("unknown kind " + kind)
	})
}

type c06case struct {
	kind  string
	input [][]byte
}

var c06hist = map[string]int{}

// runBatch runs the cases in a CHILD process (this binary, sub-command C06child) under an
// address-space limit: a fatal runtime error (out of memory on an attacker-chosen allocation,
// stack exhaustion, concurrent map access) kills only the child.  When the child dies the batch is
// bisected down to the single crashing case, which is reported with status `crash`.
func runBatch(cases []c06case) {
	if len(cases) == 0 || c06hangBudgetSpent(9) {
		return
	}
	lines, ok := runChild(cases)
	if ok {
		for _, l := range lines {
			out.WriteString(l + "\n")
		}
		for _, c := range cases {
			c06hist[c.kind]++
		}
		return
	}
	if len(cases) == 1 {
		var in []Sx
		for _, b := range cases[0].input {
			in = append(in, Sx(b))
		}
		c06hist[cases[0].kind+":crash"]++
		emit(L(Sym("c06"), Sym(cases[0].kind), in, L(Sym("crash"), 0, 0, true, Sym("d"))))
		return
	}
	runBatch(cases[:len(cases)/2])
	runBatch(cases[len(cases)/2:])
}

func runChild(cases []c06case) ([]string, bool) {
	var in bytes.Buffer
	for _, c := range cases {
		in.WriteString(c.kind)
		for _, b := range c.input {
			in.WriteString(" " + hex.EncodeToString(b) + ".")
		}
		in.WriteString("\n")
	}
	cmd := exec.Command("/bin/sh", "-c", "ulimit -v 6000000; exec \"$0\" C06child", os.Args[0])
	cmd.Stdin = &in
	var outb bytes.Buffer
	cmd.Stdout = &outb
	if err := cmd.Run(); err != nil {
		return nil, false
	}
	var lines []string
	skipped := 0
	for _, l := range strings.Split(outb.String(), "\n") {
		if strings.HasPrefix(l, "(c06 ") {
			lines = append(lines, l)
			if strings.Contains(l, " (hang ") {
				atomic.AddInt32(&c06hangs, 1)
			}
		}
		if strings.HasPrefix(l, "SKIPPED ") {
			skipped, _ = strconv.Atoi(strings.TrimPrefix(l, "SKIPPED "))
		}
	}
	if len(lines)+skipped != len(cases) {
		return nil, false
	}
	return lines, true
}

// child: reads "kind hex. hex. ..." lines, runs them sequentially and from 16 goroutines, prints cases
func childC06(tier string, rng *Rng) {
	sc := bufio.NewScanner(os.Stdin)
	sc.Buffer(make([]byte, 1<<20), 1<<28)
	var cases []c06case
	for sc.Scan() {
		f := strings.Fields(sc.Text())
		if len(f) == 0 {
			continue
		}
		c := c06case{kind: f[0]}
		for _, h := range f[1:] {
			b, _ := hex.DecodeString(strings.TrimSuffix(h, "."))
			c.input = append(c.input, b)
		}
		cases = append(cases, c)
	}
	runBatchInProcess(cases)
}

// runBatchInProcess: sequential results first, then every case again from 16 goroutines at once
// (each goroutine walks the batch from a different starting point).
func runBatchInProcess(cases []c06case) {
	// The encoders get the SAME message objects in every call of a case - sequentially first, then from
	// 16 goroutines at once, as when one state is broadcast to several connections (seed C06-8: an
	// encoder that temporarily rewrites a field of its INPUT and restores it is invisible sequentially).
	// After each phase the objects must still equal a fresh decode of the wire bytes.
	sharedIn := make([][]*rwp.InboundMessage, len(cases))
	sharedOut := make([][]*rwp.OutboundMessage, len(cases))
	for i, c := range cases {
		switch c.kind {
		case "encin":
			sharedIn[i] = unmarshalIn(c.input)
		case "encout":
			sharedOut[i] = unmarshalOut(c.input)
		}
	}
	// results held back: digested again after ALL calls of a phase have returned
	type held struct {
		i    int
		late func() string
	}
	var heldMu sync.Mutex
	var heldRes []held
	keepFor := func(i int) func(func() string) {
		return func(f func() string) {
			heldMu.Lock()
			heldRes = append(heldRes, held{i, f})
			heldMu.Unlock()
		}
	}
	recheckHeld := func(ref []c06res, bad []bool) {
		heldMu.Lock()
		defer heldMu.Unlock()
		for _, h := range heldRes {
			if ref[h.i].status != "ok" {
				continue
			}
			func() {
				defer func() {
					if recover() != nil {
						bad[h.i] = false
					}
				}()
				if h.late() != ref[h.i].digest {
					bad[h.i] = false
				}
			}()
		}
		heldRes = nil
	}
	run := func(i int) c06res {
		c := cases[i]
		switch c.kind {
		case "encin":
			return guarded(func() c06res {
				ss := rwl.InboundMessagesToRawPanelASCIIstrings(sharedIn[i])
				return c06res{"ok", len(ss), 0, digestStrings(ss)}
			})
		case "encout":
			return guarded(func() c06res {
				ss := rwl.OutboundMessagesToRawPanelASCIIstrings(sharedOut[i])
				sorted := append([]string{}, ss...)
				sort.Strings(sorted)
				return c06res{"ok", len(ss), 0, digestStrings(sorted)}
			})
		}
		return runKindKeep(c.kind, c.input, keepFor(i))
	}
	inputIntact := func(i int) bool {
		switch cases[i].kind {
		case "encin":
			f := unmarshalIn(cases[i].input)
			if len(f) != len(sharedIn[i]) {
				return false
			}
			for k := range f {
				if !proto.Equal(f[k], sharedIn[i][k]) {
					return false
				}
			}
		case "encout":
			f := unmarshalOut(cases[i].input)
			if len(f) != len(sharedOut[i]) {
				return false
			}
			for k := range f {
				if !proto.Equal(f[k], sharedOut[i][k]) {
					return false
				}
			}
		}
		return true
	}
	seq := make([]c06res, len(cases))
	conc := make([]bool, len(cases))
	skipped := 0
	for i := range cases {
		if c06hangBudgetSpent(3) {
			seq[i] = c06res{status: "skip"}
			skipped++
			continue
		}
		seq[i] = run(i)
		conc[i] = seq[i].status != "ok" || inputIntact(i)
	}
	recheckHeld(seq, conc) // sequential history: an earlier result must still be what it was
	var mu sync.Mutex
	var wg sync.WaitGroup
	for g := 0; g < 16 && skipped == 0; g++ {
		wg.Add(1)
		go func(g int) {
			defer wg.Done()
			for k := 0; k < len(cases); k++ {
				i := (k + g*7) % len(cases)
				if seq[i].status != "ok" {
					continue // a panicking / hanging input is already a violation; do not repeat it 16 times
				}
				r := run(i)
				if r != seq[i] {
					mu.Lock()
					conc[i] = false
					mu.Unlock()
				}
			}
		}(g)
	}
	wg.Wait()
	recheckHeld(seq, conc) // ... and so must every result of the concurrent phase, after all of them returned
	if skipped > 0 {
		defer func() { out.Flush(); fmt.Fprintf(caseOut, "SKIPPED %d\n", skipped) }()
	}
	for i, c := range cases {
		if seq[i].status == "skip" {
			continue
		}
		if seq[i].status == "ok" && !inputIntact(i) {
			conc[i] = false
		}
		var in []Sx
		for _, b := range c.input {
			in = append(in, Sx(b))
		}
		emit(L(Sym("c06"), Sym(c.kind), in, L(Sym(seq[i].status), seq[i].n, seq[i].nils, conc[i], Sym("d"+seq[i].digest))))
	}
}

// ---------------- cold start ----------------
// (seed C06-6: a lazily built package-level table with a broken double-checked lock is only unsafe
// while the FIRST calls a process ever makes into a converter overlap; after any completed call the
// process is race-free for good, so a check that computes its sequential reference first can never
// see it.)  runCold starts nchild fresh processes; in each, the very first calls into the library
// are made by 8 goroutines released together with a per-child stagger of 0..60 us between them; the
// sequential reference is computed only afterwards.  A case's kind gets the suffix "-cold".
func runCold(cases []c06case, nchild int) {
	if len(cases) == 0 {
		return
	}
	var in bytes.Buffer
	for _, c := range cases {
		in.WriteString(strings.TrimSuffix(c.kind, "-cold"))
		for _, b := range c.input {
			in.WriteString(" " + hex.EncodeToString(b) + ".")
		}
		in.WriteString("\n")
	}
	agree := make([]bool, len(cases))
	for i := range agree {
		agree[i] = true
	}
	var seq []string // "status n nils digest" of the sequential reference, from the last child that lived
	crashed := 0
	for n := 0; n < nchild; n++ {
		cmd := exec.Command("/bin/sh", "-c", "ulimit -v 6000000; exec \"$0\" C06cold", os.Args[0])
		cmd.Env = append(os.Environ(), fmt.Sprintf("C06_STAGGER_NS=%d", (n%13)*5000), fmt.Sprintf("GOMAXPROCS=%d", []int{16, 2, 4, 8, 3}[n%5]))
		cmd.Stdin = bytes.NewReader(in.Bytes())
		var outb bytes.Buffer
		cmd.Stdout = &outb
		if err := cmd.Run(); err != nil {
			crashed++
			continue
		}
		var lines []string
		for _, l := range strings.Split(outb.String(), "\n") {
			if strings.HasPrefix(l, "COLD ") {
				lines = append(lines, l[5:])
			}
		}
		if len(lines) != len(cases) {
			crashed++
			continue
		}
		seq = nil
		for i, l := range lines {
			f := strings.SplitN(l, " ", 2)
			if f[0] != "1" {
				agree[i] = false
			}
			seq = append(seq, f[1])
		}
	}
	for i, c := range cases {
		var inx []Sx
		for _, b := range c.input {
			inx = append(inx, Sx(b))
		}
		kind := strings.TrimSuffix(c.kind, "-cold") + "-cold"
		c06hist[kind]++
		if crashed > 0 && i == 0 {
			c06hist[kind+":crash"]++
			emit(L(Sym("c06"), Sym(kind), inx, L(Sym("crash"), 0, 0, true, Sym("d"))))
			continue
		}
		if seq == nil {
			emit(L(Sym("c06"), Sym(kind), inx, L(Sym("crash"), 0, 0, true, Sym("d"))))
			continue
		}
		var st, dg string
		var cnt, nils int
		fmt.Sscanf(seq[i], "%s %d %d %s", &st, &cnt, &nils, &dg)
		emit(L(Sym("c06"), Sym(kind), inx, L(Sym(st), cnt, nils, agree[i], Sym("d"+dg))))
	}
}

// child of runCold: the concurrent calls come FIRST, the sequential reference afterwards
func childC06cold(tier string, rng *Rng) {
	sc := bufio.NewScanner(os.Stdin)
	sc.Buffer(make([]byte, 1<<20), 1<<28)
	var cases []c06case
	for sc.Scan() {
		f := strings.Fields(sc.Text())
		if len(f) == 0 {
			continue
		}
		c := c06case{kind: f[0]}
		for _, h := range f[1:] {
			b, _ := hex.DecodeString(strings.TrimSuffix(h, "."))
			c.input = append(c.input, b)
		}
		cases = append(cases, c)
	}
	stagger, _ := strconv.Atoi(os.Getenv("C06_STAGGER_NS"))
	const G = 8
	res := make([][]c06res, G)
	var wg sync.WaitGroup
	start := make(chan struct{})
	for g := 0; g < G; g++ {
		wg.Add(1)
		go func(g int) {
			defer wg.Done()
			<-start
			t0 := time.Now()
			for time.Since(t0) < time.Duration(g*stagger) { // busy wait: sub-scheduler-tick precision
			}
			res[g] = make([]c06res, len(cases))
			for i, c := range cases {
				res[g][i] = runKind(c.kind, c.input)
			}
		}(g)
	}
	close(start)
	wg.Wait()
	for i, c := range cases {
		ref := runKind(c.kind, c.input)
		same := 1
		for g := 0; g < G; g++ {
			if res[g][i] != ref {
				same = 0
			}
		}
		d := ref.digest
		if d == "" {
			d = "-"
		}
		fmt.Fprintf(caseOut, "COLD %d %s %d %d %s\n", same, ref.status, ref.n, ref.nils, d)
	}
}

// every keyword of both ASCII grammars with a plausible argument, dense messages for both encoders:
// whatever table a converter builds on first use is touched by the first overlapping calls
func coldCases(rng *Rng) []c06case {
	var inl, outl [][]byte
	arg := func(kw string) string {
		switch {
		case strings.HasSuffix(kw, "#"):
			return kw + "5=1"
		case strings.HasSuffix(kw, "="):
			return kw + "1"
		case kw == "Mem" || kw == "Shift" || kw == "State":
			return kw + "A=3"
		}
		return kw
	}
	for _, kw := range inKeywords {
		inl = append(inl, []byte(arg(kw)))
	}
	inl = append(inl, []byte("HWCt#5=12|1|2|Title|1|L1|L2"), []byte("HWCg#5=0/0,8x1:qg=="), []byte("HWCc#5=133"), []byte("Flag#3=1"), []byte("{\"HWCIDs\":[1],\"HWCMode\":{\"State\":4}}"))
	for _, kw := range outKeywords {
		outl = append(outl, []byte(arg(kw)))
	}
	outl = append(outl, []byte("HWC#5=Down"), []byte("HWC#5.4=Up"), []byte("HWC#5=Press"), []byte("HWC#5=Enc:-2"), []byte("HWC#5=Abs:7"), []byte("HWC#5=Speed:-3"), []byte("HWC#5=Raw:9"),
		[]byte("map=5:6"), []byte("_support=ASCII,Binary,System"), []byte("SysStat=CPUUsage:5:CPUTemp:41.5:"), []byte("Flag#3=1"))
	cases := []c06case{{"decin", inl}, {"reader", inl}, {"decout", outl}}
	var wi, wo [][]byte
	for k := 0; k < 3; k++ {
		mi := &rwp.InboundMessage{}
		randMsg(rng, mi.ProtoReflect(), 4, 100)
		if b, err := proto.Marshal(mi); err == nil {
			wi = append(wi, b)
		}
		mo := &rwp.OutboundMessage{}
		randMsg(rng, mo.ProtoReflect(), 4, 100)
		if b, err := proto.Marshal(mo); err == nil {
			wo = append(wo, b)
		}
	}
	// registers of every kind, every flow word, every command flag: one message each way
	wi = append(wi, mustWire(&rwp.InboundMessage{FlowMessage: 1, Command: &rwp.Command{ActivatePanel: true, SendPanelInfo: true, Reboot: true, ClearAll: true},
		Registers: []*rwp.Register{{Reg: 0, Id: "A", Value: 1}, {Reg: 1, Id: "1", Value: 1}, {Reg: 2, Id: "A", Value: 2}, {Reg: 3, Id: "B", Value: 3}}}))
	wo = append(wo, mustWire(&rwp.OutboundMessage{FlowMessage: 1, Events: []*rwp.HWCEvent{{HWCID: 1, Binary: &rwp.BinaryEvent{Pressed: true, Edge: 4}}, {HWCID: 2, Pulsed: &rwp.PulsedEvent{Value: -1}}},
		Registers: []*rwp.Register{{Reg: 0, Id: "A", Value: 1}, {Reg: 1, Id: "1", Value: 1}, {Reg: 2, Id: "A", Value: 2}, {Reg: 3, Id: "B", Value: 3}}}))
	cases = append(cases, c06case{"encin", wi}, c06case{"encout", wo})
	return cases
}

func mustWire(m proto.Message) []byte {
	b, err := proto.Marshal(m)
	if err != nil {
		panic(err)
	}
	return b
}

// ---------------- generators ----------------

var inKeywords = []string{"ping", "ack", "nack", "list", "map", "ActivePanel=1", "PanelTopology?", "BurninProfile?", "CalibrationProfile?", "NetworkConfig?",
	"Registers?", "Connections?", "RunTimeStats?", "Clear", "ClearLEDs", "ClearDisplays", "SleepTimer?", "WakeUp!", "Reboot",
	"HeartBeatTimer=", "DimmedGain=", "PublishSystemStat=", "LoadCPU=", "SleepTimer=", "SleepMode=", "SleepScreenSaver=", "Webserver=", "JSONonOutbound=",
	"PanelBrightness=", "SetCalibrationProfile=", "SetNetworkConfig=", "SimulateEnvironmentalHealth=",
	"HWC#", "HWCc#", "HWCx#", "HWCt#", "HWCg#", "HWCgRGB#", "HWCgGray#", "HWCrawADCValues#", "Mem", "Shift", "State", "Flag#"}
var outKeywords = []string{"ping", "ack", "nack", "list", "BSY", "RDY", "map=", "HWC#", "_model=", "_serial=", "_version=", "_platform=", "_bluePillReady=", "_name=", "_panelType=",
	"_support=", "_isSleeping=", "_sleepTimer=", "_panelTopology_svgbase=", "_panelTopology_HWC=", "_burninProfile=", "_networkConfig=", "_calibrationProfile=",
	"_defaultCalibrationProfile=", "_serverModeLockToIP=", "_serverModeMaxClients=", "_heartBeatTimer=", "DimmedGain=", "_connections=", "_bootsCount=",
	"_totalUptimeMin=", "_sessionUptimeMin=", "_screenSaverOnMin=", "ErrorMsg=", "Msg=", "EnvironmentalHealth=", "SysStat=", "Mem", "Shift", "State", "Flag#"}
var argPieces = []string{"", "0", "1", "5", "255", "4294967295", "4294967296", "18446744073709551616", "99999999999999999999999999", "-1", "-", "+1", "1,2", "1,2,3", ",", "1,,2", "007",
	"Down", "Up", "Press", "Abs", "Speed", "Enc", "Raw", ":", ":5", ":-5", ":--", ".1", ".4", ".16", ".", "=", "==", "|", "||||||||||||||||||||||", "a|b|c", "0/2,8x8:QUFB", "1:QUFB", "0/0,1x1:", "0/1,8x8,1,1:!!!!",
	"Normal", "Safemode", "Blocked", "{}", "{", "[", "[]", "[null]", "[{}]", "[{\"States\":[null]}]", "{\"HWCIDs\":\"x\"}", "{\"HWCIDs\":[1],\"HWCText\":{\"Formatting\":10}}", "null", "\"x\"",
	"CPUUsage:1:", "CPUTemp:45.5:ExtTemp:abc:", "a:b", "Binary,Pulsed", "\n", "\r", "\x00", "\xff\xfe", "é", " ", "\t", "A", "ABC", "A1", "a"}

func almostLine(rng *Rng, kws []string) []byte {
	switch rng.Intn(12) {
	case 0:
		return rng.Bytes(rng.Intn(40))
	case 1: // JSON-looking
		return []byte(rng.PickS([]string{"{", "[", "{}", "[]", "[null]", "[null,null]", "[{}]", "[{\"States\":[null]}]", "[{\"States\":[{\"HWCIDs\":[1],\"HWCText\":{\"Formatting\":11}}]}]",
			"{\"HWCIDs\":\"x\"}", "{\"HWCIDs\":[1,2],\"HWCMode\":{\"State\":9}}", "{\"HWCIDs\":[3],\"HWCGfx\":{}}", "[[[[[[[[[[[[[[[[", "{\"a\":{\"a\":{\"a\":{\"a\":{}}}}}", "[1,2,3]", "[\"x\"]", "{\"Command\":null}", "[{\"Command\":{\"PanelBrightness\":null}}]"}))
	}
	s := rng.PickS(kws)
	n := rng.Range(0, 4)
	for i := 0; i < n; i++ {
		s += rng.PickS(argPieces)
	}
	if rng.Intn(6) == 0 && len(s) > 0 { // mutate one byte
		b := []byte(s)
		b[rng.Intn(len(b))] = byte(rng.Intn(256))
		return b
	}
	return []byte(s)
}

func (r *Rng) PickS(xs []string) string { return xs[r.Intn(len(xs))] }

// randMsg fills m generically through protobuf reflection: every presence pattern of
// sub-messages is reachable, scalars take boundary / out-of-range values.
func randMsg(rng *Rng, m protoreflect.Message, depth int, pPresent int) {
	fds := m.Descriptor().Fields()
	for i := 0; i < fds.Len(); i++ {
		fd := fds.Get(i)
		if rng.Intn(100) >= pPresent {
			continue
		}
		if fd.IsMap() {
			mp := m.Mutable(fd).Map()
			for k := rng.Intn(3); k > 0; k-- {
				mp.Set(randScalar(rng, fd.MapKey()).MapKey(), randScalar(rng, fd.MapValue()))
			}
			continue
		}
		if fd.IsList() {
			l := m.Mutable(fd).List()
			for k := rng.Intn(3); k > 0; k-- {
				if fd.Kind() == protoreflect.MessageKind {
					if depth <= 0 {
						continue
					}
					e := l.NewElement()
					randMsg(rng, e.Message(), depth-1, pPresent)
					l.Append(e)
				} else {
					l.Append(randScalar(rng, fd))
				}
			}
			continue
		}
		if fd.Kind() == protoreflect.MessageKind {
			if depth <= 0 {
				continue
			}
			sub := m.Mutable(fd).Message()
			randMsg(rng, sub, depth-1, pPresent)
			continue
		}
		m.Set(fd, randScalar(rng, fd))
	}
}

func randScalar(rng *Rng, fd protoreflect.FieldDescriptor) protoreflect.Value {
	ints := []int64{0, 1, 2, 3, 5, 7, 10, 11, 12, 13, 31, 32, 63, 64, 127, 128, 255, 256, 4095, 4096, 65535, 1 << 31, (1 << 31) - 1, (1 << 32) - 1, -1, -(1 << 31)}
	v := ints[rng.Intn(len(ints))]
	switch fd.Kind() {
	case protoreflect.BoolKind:
		return protoreflect.ValueOfBool(rng.Bool())
	case protoreflect.EnumKind:
		// every small value (declared, first undeclared, ...) as well as the extremes
		if rng.Intn(4) != 0 {
			return protoreflect.ValueOfEnum(protoreflect.EnumNumber(int32(rng.Range(-2, 40))))
		}
		return protoreflect.ValueOfEnum(protoreflect.EnumNumber(int32(v)))
	case protoreflect.Int32Kind, protoreflect.Sint32Kind, protoreflect.Sfixed32Kind:
		return protoreflect.ValueOfInt32(int32(v))
	case protoreflect.Uint32Kind, protoreflect.Fixed32Kind:
		return protoreflect.ValueOfUint32(uint32(v))
	case protoreflect.Int64Kind, protoreflect.Sint64Kind, protoreflect.Sfixed64Kind:
		return protoreflect.ValueOfInt64(v)
	case protoreflect.Uint64Kind, protoreflect.Fixed64Kind:
		return protoreflect.ValueOfUint64(uint64(v))
	case protoreflect.FloatKind:
		return protoreflect.ValueOfFloat32(float32(v) / 7)
	case protoreflect.DoubleKind:
		return protoreflect.ValueOfFloat64(float64(v) / 7)
	case protoreflect.StringKind:
		return protoreflect.ValueOfString(rng.PickS([]string{"", "a", "A1", "x|y", "a\nb", "é", "\xff", "{}", "<svg>\n<path d=\"M0\n1\"/>\n</svg>", "1;2", "0123456789",
			// every kind of line break and control character alone, doubled, at the ends (seed C06-11: a
			// scan loop with no case for a carriage return that is not followed by a line feed spins for ever)
			"a\rb", "\r", "a\r", "\ra", "a\r\nb", "a\n\rb", "\r\r", "\n\n", "a\x00b", "\t", "a\x0bb\x0c", "\u2028x\u2029", "\u0085", "%d%s", "50%"}))
	case protoreflect.BytesKind:
		return protoreflect.ValueOfBytes(rng.Bytes(rng.Pick([]int{0, 1, 3, 169, 170, 171, 340, 341})))
	}
	panic("kind " + fd.Kind().String())
}

// presence sweep: for message type of `proto`, every subset of size <= 2 of the message-typed
// fields of the sub-message reached by `path` is set to an empty sub-message.
func presenceSweep(newRoot func() proto.Message, reach func(root proto.Message) protoreflect.Message, fill func(root proto.Message)) [][]byte {
	var res [][]byte
	probe := reach(newRoot())
	var idx []int
	fds := probe.Descriptor().Fields()
	for i := 0; i < fds.Len(); i++ {
		if fds.Get(i).Kind() == protoreflect.MessageKind && !fds.Get(i).IsList() && !fds.Get(i).IsMap() {
			idx = append(idx, i)
		}
	}
	emitSet := func(set []int) {
		root := newRoot()
		if fill != nil {
			fill(root)
		}
		m := reach(root)
		for _, i := range set {
			m.Mutable(m.Descriptor().Fields().Get(i))
		}
		b, err := proto.Marshal(root)
		if err == nil {
			res = append(res, b)
		}
	}
	emitSet(nil)
	for a := 0; a < len(idx); a++ {
		emitSet([]int{idx[a]})
		for b := a + 1; b < len(idx); b++ {
			emitSet([]int{idx[a], idx[b]})
		}
	}
	return res
}

func genC06(tier string, rng *Rng) {
	thorough := tier == "thorough"
	mult := 1
	if thorough {
		mult = 10
	}
	var batch []c06case
	flush := func() {
		if len(batch) > 0 {
			runBatch(batch)
			batch = nil
		}
	}
	add := func(kind string, input [][]byte) {
		batch = append(batch, c06case{kind, input})
		if len(batch) >= 400 {
			flush()
		}
	}
	// 1. malformed / almost grammatical lines through both decoders and the reader
	for n := 0; n < 3000*mult; n++ {
		k := rng.Range(1, 4)
		var ls [][]byte
		for i := 0; i < k; i++ {
			ls = append(ls, almostLine(rng, inKeywords))
		}
		add("decin", ls)
		if n%3 == 0 {
			add("reader", ls)
		}
		ls = nil
		for i := 0; i < k; i++ {
			ls = append(ls, almostLine(rng, outKeywords))
		}
		add("decout", ls)
	}
	// every keyword x every argument piece (exhaustive product, single line)
	for _, kw := range inKeywords {
		for _, a := range argPieces {
			add("decin", [][]byte{[]byte(kw + a)})
			if thorough {
				for _, b := range []string{"=1", ":QUFB", "|", ","} {
					add("decin", [][]byte{[]byte(kw + a + b)})
				}
			}
		}
	}
	for _, kw := range outKeywords {
		for _, a := range argPieces {
			add("decout", [][]byte{[]byte(kw + a)})
			add("decout", [][]byte{[]byte(kw + "5" + a)})
		}
	}
	// hostile numbers inside otherwise grammatical graphics lines (part counts, sizes, offsets, ids)
	bigs := []string{"0", "1", "2", "3", "255", "65535", "70000", "1048576", "16777216", "4294967295", "4294967296", "17592186044416", "281474976710656",
		"9223372036854775807", "9223372036854775808", "18446744073709551615", "99999999999999999999999"}
	for _, kw := range []string{"HWCg#", "HWCgRGB#", "HWCgGray#"} {
		for _, b := range bigs {
			for _, ln := range []string{
				kw + "1=0/" + b + ",8x8:QUFB", kw + "1=0/1," + b + "x8:QUFB", kw + "1=0/1,8x" + b + ":QUFB", kw + "1=0/1,8x8," + b + "," + b + ":QUFB",
				kw + "1=" + b + ":QUFB", kw + b + "=0/1,8x8:QUFB", kw + "1=" + b + "/" + b + "," + b + "x" + b + ":"} {
				add("decin", [][]byte{[]byte(ln)})
				add("reader", [][]byte{[]byte(ln)})
				add("reader", [][]byte{[]byte(ln), []byte(kw + "1=1:QUFB"), []byte(kw + "1=2:QUFB")})
				add("decin", [][]byte{[]byte(ln), []byte(kw + "1=1:QUFB"), []byte(kw + "1=2:QUFB")})
			}
		}
	}
	for _, b := range bigs {
		for _, kw := range []string{"HWC#", "HWCc#", "HWCx#", "HWCt#", "HWCrawADCValues#", "Flag#", "Mem", "HeartBeatTimer=", "PanelBrightness="} {
			add("decin", [][]byte{[]byte(kw + b), []byte(kw + b + "=" + b), []byte(kw + "1=" + b), []byte(kw + b + "," + b + "=" + b + "|" + b + "|" + b)})
		}
		for _, kw := range []string{"HWC#", "map=", "Mem", "Flag#", "_heartBeatTimer=", "_sleepTimer="} {
			add("decout", [][]byte{[]byte(kw + b), []byte(kw + b + "=Down"), []byte(kw + b + "." + b + "=Abs:" + b), []byte(kw + b + ":" + b), []byte(kw + "A=" + b)})
		}
	}
	// images that fit ONE line (0/0), each with its own content, one per call and several per call, all
	// three formats, also through the streaming reader: their results are held and looked at again after
	// all other calls (runKindKeep)
	for n := 0; n < 24; n++ {
		data := bytes.Repeat([]byte{byte(n + 1)}, 16+n%5)
		b64 := base64.StdEncoding.EncodeToString(data)
		kw := []string{"HWCg", "HWCgGray", "HWCgRGB"}[n%3]
		ln := fmt.Sprintf("%s#%d=0/0,16x8:%s", kw, 100+n, b64)
		add("decin", [][]byte{[]byte(ln)})
		add("reader", [][]byte{[]byte(ln)})
		if n%4 == 0 {
			add("decin", [][]byte{[]byte(ln), []byte(fmt.Sprintf("%s#%d=0/0,8x8,1,1:%s", kw, 200+n, base64.StdEncoding.EncodeToString(bytes.Repeat([]byte{byte(200 - n)}, 8))))})
		}
	}
	// labels around typical buffer sizes, in BYTES and in CHARACTERS: ASCII of length L-1, L, L+1 and
	// multi-byte texts that are longer than L bytes but shorter than L characters, for every text field of a
	// text state and of the identity strings (seed C06-13: `len(label) <= 64` guards `[]rune(label)[:64]`)
	for _, L := range []int{16, 32, 64, 128, 255, 256} {
		var texts []string
		for _, d := range []int{-1, 0, 1} {
			texts = append(texts, strings.Repeat("a", L+d))
		}
		for _, ch := range []string{"\u00d8", "\u20ac", "\U0001F4A1", "e\u0301"} {
			n := L/len(ch) + 1 // just over L bytes, well under L characters
			texts = append(texts, strings.Repeat(ch, n), strings.Repeat(ch, L-1), strings.Repeat(ch, L), "x"+strings.Repeat(ch, n))
		}
		for k, tx := range texts {
			mi := &rwp.InboundMessage{States: []*rwp.HWCState{{HWCIDs: []uint32{5}, HWCText: &rwp.HWCText{IntegerValue: 7, Title: tx, Textline1: texts[(k+1)%len(texts)], Textline2: texts[(k+2)%len(texts)], Formatting: 7}}}}
			add("encin", [][]byte{mustWire(mi)})
			mo := &rwp.OutboundMessage{PanelInfo: &rwp.PanelInfo{Model: tx, Serial: tx, Name: tx, SoftwareVersion: tx}, ErrorMessage: &rwp.Message{Message: tx}}
			add("encout", [][]byte{mustWire(mo)})
			add("decin", [][]byte{[]byte("HWCt#12=|||" + tx + "|1|" + tx)})
			add("decout", [][]byte{[]byte("_name=" + tx), []byte("Msg=" + tx)})
		}
	}
	// states as JSON lines (the inbound decoder accepts `{...}` = encoding/json of an HWCState): every
	// formatting value with the styling / font / scale sub-objects absent, empty and filled - omitempty leaves
	// a sub-object out exactly when it holds defaults (seed C06-15: the clean-up rules of the HWCt# path
	// applied to JSON states read TextStyling without the nil guard that path never needed)
	for fm := -1; fm <= 14; fm++ {
		for v := 0; v < 6; v++ {
			st := &rwp.HWCState{HWCIDs: []uint32{5}, HWCText: &rwp.HWCText{Formatting: rwp.HWCText_FormattingE(fm), Title: "Hello", Textline1: "a", IntegerValue: 7}}
			switch v {
			case 1:
				st.HWCText.TextStyling = &rwp.HWCText_TextStyle{}
			case 2:
				st.HWCText.TextStyling = &rwp.HWCText_TextStyle{TextFont: &rwp.HWCText_TextStyle_Font{FontFace: 1}}
			case 3:
				st.HWCText.TextStyling = &rwp.HWCText_TextStyle{TitleFont: &rwp.HWCText_TextStyle_Font{TextHeight: 2}, UnformattedFontSize: 3}
			case 4:
				st.HWCText.Scale = &rwp.HWCText_ScaleM{}
			case 5:
				st.HWCText = &rwp.HWCText{Formatting: rwp.HWCText_FormattingE(fm)}
			}
			if js, err := json.Marshal(st); err == nil {
				add("decin", [][]byte{js})
				add("reader", [][]byte{js})
			}
		}
	}
	// ... and whatever the presence sweeps of the encoder side produce, as JSON lines
	for n := 0; n < 300; n++ {
		mi := &rwp.InboundMessage{}
		randMsg(rng, mi.ProtoReflect(), 3, 60)
		var ls [][]byte
		for _, st := range mi.States {
			if js, err := json.Marshal(st); err == nil && len(js) < 4000 {
				ls = append(ls, js)
			}
		}
		if len(ls) > 0 {
			add("decin", ls)
			if n%4 == 0 {
				add("reader", ls)
			}
		}
	}
	// very long lines
	long := make([]byte, 1<<20)
	for i := range long {
		long[i] = '9'
	}
	add("decin", [][]byte{append([]byte("HWC#1="), long...)})
	add("decin", [][]byte{append([]byte("HWCt#1="), long...)})
	add("decout", [][]byte{append([]byte("HWC#"), long...)})
	add("decin", [][]byte{append([]byte("["), long...)})
	// 2. presence-pattern sweeps (singles and pairs exhaustive) under Command, HWCState, HWCText (x formats), HWCColor
	newIn := func() proto.Message { return &rwp.InboundMessage{} }
	for _, w := range presenceSweep(newIn, func(r proto.Message) protoreflect.Message {
		m := r.(*rwp.InboundMessage)
		if m.Command == nil {
			m.Command = &rwp.Command{}
		}
		return m.Command.ProtoReflect()
	}, nil) {
		add("encin", [][]byte{w})
	}
	stateReach := func(r proto.Message) protoreflect.Message {
		m := r.(*rwp.InboundMessage)
		if len(m.States) == 0 {
			m.States = []*rwp.HWCState{{HWCIDs: []uint32{7}}}
		}
		return m.States[0].ProtoReflect()
	}
	for _, w := range presenceSweep(newIn, stateReach, nil) {
		add("encin", [][]byte{w})
	}
	for _, fmtv := range []int{0, 1, 7, 10, 11, 12, 13, 255} {
		fmtv := fmtv
		textReach := func(r proto.Message) protoreflect.Message {
			m := r.(*rwp.InboundMessage)
			if len(m.States) == 0 {
				m.States = []*rwp.HWCState{{HWCIDs: []uint32{7}, HWCText: &rwp.HWCText{Formatting: rwp.HWCText_FormattingE(fmtv), IntegerValue: 5}}}
			}
			return m.States[0].HWCText.ProtoReflect()
		}
		for _, w := range presenceSweep(newIn, textReach, nil) {
			add("encin", [][]byte{w})
		}
		stylReach := func(r proto.Message) protoreflect.Message {
			m := r.(*rwp.InboundMessage)
			if len(m.States) == 0 {
				m.States = []*rwp.HWCState{{HWCIDs: []uint32{7}, HWCText: &rwp.HWCText{Formatting: rwp.HWCText_FormattingE(fmtv), TextStyling: &rwp.HWCText_TextStyle{}}}}
			}
			return m.States[0].HWCText.TextStyling.ProtoReflect()
		}
		for _, w := range presenceSweep(newIn, stylReach, nil) {
			add("encin", [][]byte{w})
		}
	}
	colReach := func(r proto.Message) protoreflect.Message {
		m := r.(*rwp.InboundMessage)
		if len(m.States) == 0 {
			m.States = []*rwp.HWCState{{HWCIDs: []uint32{7}, HWCColor: &rwp.HWCColor{}, HWCText: &rwp.HWCText{Title: "t", PixelColor: &rwp.Color{}, BackgroundColor: &rwp.Color{}}}}
		}
		return m.States[0].HWCColor.ProtoReflect()
	}
	for _, w := range presenceSweep(newIn, colReach, nil) {
		add("encin", [][]byte{w})
	}
	newOut := func() proto.Message { return &rwp.OutboundMessage{} }
	for _, w := range presenceSweep(newOut, func(r proto.Message) protoreflect.Message { return r.(*rwp.OutboundMessage).ProtoReflect() }, nil) {
		add("encout", [][]byte{w})
	}
	evReach := func(r proto.Message) protoreflect.Message {
		m := r.(*rwp.OutboundMessage)
		if len(m.Events) == 0 {
			m.Events = []*rwp.HWCEvent{{HWCID: 3}}
		}
		return m.Events[0].ProtoReflect()
	}
	for _, w := range presenceSweep(newOut, evReach, nil) {
		add("encout", [][]byte{w})
	}
	// 2a'. presence patterns of TWO consecutive events for one component (every subset of the five payload
	// kinds on each side, 32 x 32), and of two consecutive states (seed C06-12: merging a press with the
	// following release reads the next event's Binary payload without checking that it has one)
	for a := 0; a < 32; a++ {
		for b := 0; b < 32; b++ {
			mk := func(mask int, id uint32) *rwp.HWCEvent {
				e := &rwp.HWCEvent{HWCID: id}
				if mask&1 != 0 {
					e.Binary = &rwp.BinaryEvent{Pressed: mask&2 == 0, Edge: rwp.BinaryEvent_EdgeID(mask & 4)}
				}
				if mask&2 != 0 {
					e.Pulsed = &rwp.PulsedEvent{Value: -1}
				}
				if mask&4 != 0 {
					e.Absolute = &rwp.AbsoluteEvent{Value: 7}
				}
				if mask&8 != 0 {
					e.Speed = &rwp.SpeedEvent{Value: -3}
				}
				if mask&16 != 0 {
					e.RawAnalog = &rwp.RawAnalogEvent{Value: 9}
				}
				return e
			}
			for _, same := range []bool{true, false} {
				id2 := uint32(5)
				if !same {
					id2 = 6
				}
				if !same && !thorough && (a+b)%4 != 0 {
					continue
				}
				add("encout", [][]byte{mustWire(&rwp.OutboundMessage{Events: []*rwp.HWCEvent{mk(a, 5), mk(b, id2)}})})
			}
		}
	}
	// 2b. enum sweep: every enum field of every (nested) message type, values -2..40 and the int32 extremes,
	//     each set alone in an otherwise minimal message that reaches the field
	for _, w := range enumSweep(func() proto.Message { return &rwp.InboundMessage{} }) {
		add("encin", [][]byte{w})
	}
	for _, w := range enumSweep(func() proto.Message { return &rwp.OutboundMessage{} }) {
		add("encout", [][]byte{w})
	}
	// 2c. sparse scalar sweep: in every (nested) message type, every single scalar field and every PAIR
	//     of scalar fields set alone to small / boundary values in an otherwise empty message
	//     (e.g. a text state holding nothing but Formatting=7 and SolidHeaderBar=true)
	for _, w := range scalarPairSweep(func() proto.Message { return &rwp.InboundMessage{} }, thorough) {
		add("encin", [][]byte{w})
	}
	for _, w := range scalarPairSweep(func() proto.Message { return &rwp.OutboundMessage{} }, thorough) {
		add("encout", [][]byte{w})
	}
	// 2d. all scalar fields of one message type at boundary values at once (full or sampled product)
	for _, w := range boundaryProduct(func() proto.Message { return &rwp.InboundMessage{} }, rng, 600*mult) {
		add("encin", [][]byte{w})
	}
	for _, w := range boundaryProduct(func() proto.Message { return &rwp.OutboundMessage{} }, rng, 600*mult) {
		add("encout", [][]byte{w})
	}
	// 3. random messages through reflection (sparse and dense presence), and mutated wire bytes
	for n := 0; n < 2500*mult; n++ {
		p := rng.Pick([]int{15, 40, 70, 100})
		var wi, wo [][]byte
		for k := rng.Range(1, 3); k > 0; k-- {
			mi := &rwp.InboundMessage{}
			randMsg(rng, mi.ProtoReflect(), 4, p)
			if b, err := proto.Marshal(mi); err == nil {
				wi = append(wi, mutate(rng, b))
			}
			mo := &rwp.OutboundMessage{}
			randMsg(rng, mo.ProtoReflect(), 4, p)
			if b, err := proto.Marshal(mo); err == nil {
				wo = append(wo, mutate(rng, b))
			}
		}
		add("encin", wi)
		add("encout", wo)
		if n%5 == 0 { // pure noise as wire bytes
			add("encin", [][]byte{rng.Bytes(rng.Intn(30))})
			add("encout", [][]byte{rng.Bytes(rng.Intn(30))})
		}
	}
	flush()
	// 4. cold start: the first calls a process makes into the converters overlap (see runCold)
	nchild := 40
	if thorough {
		nchild = 400
	}
	if !c06hangBudgetSpent(9) {
		runCold(coldCases(rng), nchild)
	}
	meta(map[string]interface{}{"property": "C06", "kind_status_histogram": c06hist, "cold_start_children": nchild})
}

// enumSweep walks the message type tree; for each enum field found at some path it builds messages
// in which the path is populated (one element for repeated fields; HWCIDs = [7] so that states are
// encoded) and the enum takes each value of the sweep.
func enumSweep(newRoot func() proto.Message) [][]byte {
	var res [][]byte
	vals := []int32{}
	for v := int32(-2); v <= 40; v++ {
		vals = append(vals, v)
	}
	vals = append(vals, 127, 128, 255, 256, 1<<31-1, -(1 << 31))
	type step struct {
		fd protoreflect.FieldDescriptor
	}
	var walk func(md protoreflect.MessageDescriptor, path []protoreflect.FieldDescriptor, depth int)
	build := func(path []protoreflect.FieldDescriptor, enumFd protoreflect.FieldDescriptor, v int32) {
		root := newRoot()
		m := root.ProtoReflect()
		for _, fd := range path {
			if fd.IsList() {
				l := m.Mutable(fd).List()
				e := l.NewElement()
				l.Append(e)
				m = l.Get(l.Len() - 1).Message()
			} else {
				m = m.Mutable(fd).Message()
			}
			// make states addressable so that the encoder reaches their sub-messages
			if idf := m.Descriptor().Fields().ByName("HWCIDs"); idf != nil && idf.IsList() {
				m.Mutable(idf).List().Append(protoreflect.ValueOfUint32(7))
			}
		}
		if enumFd.IsList() {
			m.Mutable(enumFd).List().Append(protoreflect.ValueOfEnum(protoreflect.EnumNumber(v)))
		} else {
			m.Set(enumFd, protoreflect.ValueOfEnum(protoreflect.EnumNumber(v)))
		}
		if b, err := proto.Marshal(root); err == nil {
			res = append(res, b)
		}
	}
	walk = func(md protoreflect.MessageDescriptor, path []protoreflect.FieldDescriptor, depth int) {
		if depth > 5 {
			return
		}
		fds := md.Fields()
		for i := 0; i < fds.Len(); i++ {
			fd := fds.Get(i)
			if fd.IsMap() {
				continue
			}
			if fd.Kind() == protoreflect.EnumKind {
				for _, v := range vals {
					build(path, fd, v)
				}
			} else if fd.Kind() == protoreflect.MessageKind {
				walk(fd.Message(), append(append([]protoreflect.FieldDescriptor{}, path...), fd), depth+1)
			}
		}
	}
	walk(newRoot().ProtoReflect().Descriptor(), nil, 0)
	return res
}

// scalarPairSweep: for each message type reachable from the root (one path each), build messages in which
// the path is populated and exactly one or two scalar fields of the target message are set.
func scalarPairSweep(newRoot func() proto.Message, thorough bool) [][]byte {
	var res [][]byte
	seen := map[string]bool{}
	valsFor := func(fd protoreflect.FieldDescriptor) []protoreflect.Value {
		switch fd.Kind() {
		case protoreflect.BoolKind:
			return []protoreflect.Value{protoreflect.ValueOfBool(true)}
		case protoreflect.EnumKind:
			vs := []protoreflect.Value{}
			for _, v := range []int32{1, 2, 7, 10, 11, 12} {
				vs = append(vs, protoreflect.ValueOfEnum(protoreflect.EnumNumber(v)))
			}
			return vs
		case protoreflect.Int32Kind, protoreflect.Sint32Kind, protoreflect.Sfixed32Kind:
			return []protoreflect.Value{protoreflect.ValueOfInt32(1), protoreflect.ValueOfInt32(-1)}
		case protoreflect.Uint32Kind, protoreflect.Fixed32Kind:
			return []protoreflect.Value{protoreflect.ValueOfUint32(1), protoreflect.ValueOfUint32(4294967295)}
		case protoreflect.Int64Kind, protoreflect.Sint64Kind, protoreflect.Sfixed64Kind:
			return []protoreflect.Value{protoreflect.ValueOfInt64(1)}
		case protoreflect.Uint64Kind, protoreflect.Fixed64Kind:
			return []protoreflect.Value{protoreflect.ValueOfUint64(1)}
		case protoreflect.FloatKind:
			return []protoreflect.Value{protoreflect.ValueOfFloat32(1.5)}
		case protoreflect.DoubleKind:
			return []protoreflect.Value{protoreflect.ValueOfFloat64(1.5)}
		case protoreflect.StringKind:
			return []protoreflect.Value{protoreflect.ValueOfString("x")}
		case protoreflect.BytesKind:
			return []protoreflect.Value{protoreflect.ValueOfBytes([]byte{1})}
		}
		return nil
	}
	build := func(path []protoreflect.FieldDescriptor, sets map[protoreflect.FieldDescriptor]protoreflect.Value) {
		root := newRoot()
		m := root.ProtoReflect()
		for _, fd := range path {
			if fd.IsList() {
				l := m.Mutable(fd).List()
				l.Append(l.NewElement())
				m = l.Get(l.Len() - 1).Message()
			} else {
				m = m.Mutable(fd).Message()
			}
			if idf := m.Descriptor().Fields().ByName("HWCIDs"); idf != nil && idf.IsList() {
				m.Mutable(idf).List().Append(protoreflect.ValueOfUint32(7))
			}
		}
		for fd, v := range sets {
			if fd.IsList() {
				m.Mutable(fd).List().Append(v)
			} else {
				m.Set(fd, v)
			}
		}
		if b, err := proto.Marshal(root); err == nil {
			res = append(res, b)
		}
	}
	var walk func(md protoreflect.MessageDescriptor, path []protoreflect.FieldDescriptor, depth int)
	walk = func(md protoreflect.MessageDescriptor, path []protoreflect.FieldDescriptor, depth int) {
		if depth > 5 || seen[string(md.FullName())] {
			return
		}
		seen[string(md.FullName())] = true
		fds := md.Fields()
		var scalars []protoreflect.FieldDescriptor
		for i := 0; i < fds.Len(); i++ {
			fd := fds.Get(i)
			if fd.IsMap() {
				continue
			}
			if fd.Kind() == protoreflect.MessageKind {
				walk(fd.Message(), append(append([]protoreflect.FieldDescriptor{}, path...), fd), depth+1)
			} else if fd.Name() != "HWCIDs" {
				scalars = append(scalars, fd)
			}
		}
		for i, a := range scalars {
			for _, va := range valsFor(a) {
				build(path, map[protoreflect.FieldDescriptor]protoreflect.Value{a: va})
				for j := i + 1; j < len(scalars); j++ {
					vbs := valsFor(scalars[j])
					if !thorough && len(vbs) > 2 {
						vbs = vbs[:2]
					}
					for _, vb := range vbs {
						build(path, map[protoreflect.FieldDescriptor]protoreflect.Value{a: va, scalars[j]: vb})
					}
				}
			}
		}
	}
	walk(newRoot().ProtoReflect().Descriptor(), nil, 0)
	return res
}

// boundaryProduct: for every message type reachable from the root, messages in which ALL scalar fields of
// the target take values from a boundary set at once (0, 1, 2^31-1, 2^31, 2^32-1 / int32 extremes / every
// small enum value / empty and non-empty bytes and strings): the full product when it has at most `limit`
// elements, else `limit` random elements of it.  (seed C06-7: image type RGB16bit with W = H = 2^31
// overflows a size computed in int; pairs of fields are not enough, three must conspire.)
func boundaryProduct(newRoot func() proto.Message, rng *Rng, limit int) [][]byte {
	var res [][]byte
	seen := map[string]bool{}
	valsFor := func(fd protoreflect.FieldDescriptor) []protoreflect.Value {
		switch fd.Kind() {
		case protoreflect.BoolKind:
			return []protoreflect.Value{protoreflect.ValueOfBool(false), protoreflect.ValueOfBool(true)}
		case protoreflect.EnumKind:
			vs := []protoreflect.Value{}
			for _, v := range []int32{0, 1, 2, 3} {
				vs = append(vs, protoreflect.ValueOfEnum(protoreflect.EnumNumber(v)))
			}
			return vs
		case protoreflect.Int32Kind, protoreflect.Sint32Kind, protoreflect.Sfixed32Kind:
			return []protoreflect.Value{protoreflect.ValueOfInt32(0), protoreflect.ValueOfInt32(1), protoreflect.ValueOfInt32(-1), protoreflect.ValueOfInt32(1<<31 - 1), protoreflect.ValueOfInt32(-(1 << 31))}
		case protoreflect.Uint32Kind, protoreflect.Fixed32Kind:
			return []protoreflect.Value{protoreflect.ValueOfUint32(0), protoreflect.ValueOfUint32(1), protoreflect.ValueOfUint32(1<<31 - 1), protoreflect.ValueOfUint32(1 << 31), protoreflect.ValueOfUint32(1<<32 - 1), protoreflect.ValueOfUint32(65536)}
		case protoreflect.FloatKind:
			return []protoreflect.Value{protoreflect.ValueOfFloat32(0), protoreflect.ValueOfFloat32(-0.5), protoreflect.ValueOfFloat32(1e30)}
		case protoreflect.StringKind:
			return []protoreflect.Value{protoreflect.ValueOfString(""), protoreflect.ValueOfString("x")}
		case protoreflect.BytesKind:
			return []protoreflect.Value{protoreflect.ValueOfBytes(nil), protoreflect.ValueOfBytes([]byte{0xA5}), protoreflect.ValueOfBytes(bytes.Repeat([]byte{0x5A}, 171))}
		}
		return nil
	}
	build := func(path []protoreflect.FieldDescriptor, fds []protoreflect.FieldDescriptor, vals []protoreflect.Value) {
		root := newRoot()
		m := root.ProtoReflect()
		for _, fd := range path {
			if fd.IsList() {
				l := m.Mutable(fd).List()
				l.Append(l.NewElement())
				m = l.Get(l.Len() - 1).Message()
			} else {
				m = m.Mutable(fd).Message()
			}
			if idf := m.Descriptor().Fields().ByName("HWCIDs"); idf != nil && idf.IsList() {
				m.Mutable(idf).List().Append(protoreflect.ValueOfUint32(7))
			}
		}
		for i, fd := range fds {
			if fd.IsList() {
				m.Mutable(fd).List().Append(vals[i])
			} else {
				m.Set(fd, vals[i])
			}
		}
		if b, err := proto.Marshal(root); err == nil {
			res = append(res, b)
		}
	}
	var walk func(md protoreflect.MessageDescriptor, path []protoreflect.FieldDescriptor, depth int)
	walk = func(md protoreflect.MessageDescriptor, path []protoreflect.FieldDescriptor, depth int) {
		if depth > 5 || seen[string(md.FullName())] {
			return
		}
		seen[string(md.FullName())] = true
		fds := md.Fields()
		var scalars []protoreflect.FieldDescriptor
		var choices [][]protoreflect.Value
		for i := 0; i < fds.Len(); i++ {
			fd := fds.Get(i)
			if fd.IsMap() {
				continue
			}
			if fd.Kind() == protoreflect.MessageKind {
				walk(fd.Message(), append(append([]protoreflect.FieldDescriptor{}, path...), fd), depth+1)
			} else if fd.Name() != "HWCIDs" {
				if vs := valsFor(fd); len(vs) > 0 {
					scalars = append(scalars, fd)
					choices = append(choices, vs)
				}
			}
		}
		if len(scalars) < 2 || len(scalars) > 9 {
			return
		}
		total := 1
		for _, c := range choices {
			total *= len(c)
			if total > 1<<30 {
				break
			}
		}
		pick := make([]protoreflect.Value, len(scalars))
		if total <= limit {
			idx := make([]int, len(scalars))
			for {
				for i := range idx {
					pick[i] = choices[i][idx[i]]
				}
				build(path, scalars, pick)
				k := 0
				for k < len(idx) {
					idx[k]++
					if idx[k] < len(choices[k]) {
						break
					}
					idx[k] = 0
					k++
				}
				if k == len(idx) {
					break
				}
			}
		} else {
			for n := 0; n < limit; n++ {
				for i := range pick {
					pick[i] = choices[i][rng.Intn(len(choices[i]))]
				}
				build(path, scalars, pick)
			}
		}
	}
	walk(newRoot().ProtoReflect().Descriptor(), nil, 0)
	return res
}

func mutate(rng *Rng, b []byte) []byte {
	if len(b) == 0 || rng.Intn(3) != 0 {
		return b
	}
	c := append([]byte{}, b...)
	for k := rng.Range(1, 3); k > 0; k-- {
		c[rng.Intn(len(c))] = byte(rng.Intn(256))
	}
	return c
}

func replayC06(line string) {
	n := parseSexp(line)
	if n == nil || !n.IsList || len(n.Kids) < 3 || n.Kids[0].Atom != "c06" {
		return
	}
	var in [][]byte
	for _, k := range n.Kids[2].Kids {
		in = append(in, k.Bytes())
	}
	if strings.HasSuffix(n.Kids[1].Atom, "-cold") {
		runCold([]c06case{{n.Kids[1].Atom, in}}, 60)
		return
	}
	runBatch([]c06case{{n.Kids[1].Atom, in}})
}
