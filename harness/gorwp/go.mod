module verifharness

go 1.19

require github.com/SKAARHOJ/rawpanel-lib v0.0.0

require github.com/SKAARHOJ/ibeam-lib-utils v1.0.0 // indirect

replace github.com/SKAARHOJ/rawpanel-lib => /repo
