module verifharness

go 1.19

require (
	github.com/SKAARHOJ/rawpanel-lib v1.2.3
	google.golang.org/protobuf v1.34.1
)

require (
	github.com/SKAARHOJ/ibeam-lib-utils v1.0.0 // indirect
	github.com/SKAARHOJ/rawpanel-processors v1.0.0 // indirect
	github.com/antchfx/xpath v1.2.4 // indirect
	github.com/disintegration/gift v1.2.1 // indirect
	github.com/fogleman/gg v1.3.0 // indirect
	github.com/golang/freetype v0.0.0-20170609003504-e2365dfdc4a0 // indirect
	github.com/mattn/go-colorable v0.1.13 // indirect
	github.com/mattn/go-isatty v0.0.20 // indirect
	github.com/petermattis/goid v0.0.0-20230518223814-80aa455d8761 // indirect
	github.com/s00500/env_logger v0.1.29 // indirect
	github.com/sasha-s/go-deadlock v0.3.1 // indirect
	github.com/sirupsen/logrus v1.9.3 // indirect
	github.com/subchen/go-xmldom v1.1.2 // indirect
	go.uber.org/atomic v1.11.0 // indirect
	golang.org/x/exp v0.0.0-20230728194245-b0cb94b80691 // indirect
	golang.org/x/image v0.9.0 // indirect
	golang.org/x/sys v0.20.0 // indirect
)

replace github.com/SKAARHOJ/rawpanel-lib => /repo
