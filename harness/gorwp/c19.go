package main

// C19 — real gorwp.Connect against a scripted TCP peer on 127.0.0.1.
//
// A scenario = protocol mode, an initialisation prelude, initial bindings, a history of
// items (frames / lines with optional 2.3 s pause inside, over-limit headers, truncated
// frame + close, close, Bind* calls), a segmentation of the byte stream.  The peer sends an
// implicit *marker* message (one Binary event on id 9999, permanently bound by the harness)
// before every item that is not a plain frame/line and at the very end, and waits until it
// was dispatched (3 s watchdog): that makes the observation deterministic and is the
// liveness probe.  Observed: Connect's result, every handler invocation in order, what the
// peer received (acks and feedback, pings filtered), how the scenario ended, the getters.
//
// case line:
// (c19 (ITEM...) MODE (BIND...) (init (ITEM...) LATEK (ITEM...) DELAY) (SEG...) GAP (MARKERUNIT DEC) ((#json #digest)...) OBS)

import (
	"bufio"
	"bytes"
	"context"
	"encoding/binary"
	"encoding/json"
	"fmt"
	"io"
	"net"
	"os"
	"os/exec"
	"path/filepath"
	"reflect"
	"sort"
	"strconv"
	"strings"
	"sync"
	"sync/atomic"
	"syscall"
	"time"
	"unsafe"

	helpers "github.com/SKAARHOJ/rawpanel-lib"
	gorwp "github.com/SKAARHOJ/rawpanel-lib/gorwp"
	rwp "github.com/SKAARHOJ/rawpanel-lib/ibeam_rawpanel"
	topology "github.com/SKAARHOJ/rawpanel-lib/topology"
	"google.golang.org/protobuf/proto"
)

func init() {
	props["C19"] = genC19
	replays["C19"] = replayC19
}

const markerID = 9999
const watchdog = 3 * time.Second

type bindSpec struct {
	Kind int // 0 trigger 1 binary 2 pulsed 3 absolute 4 intensity
	ID   uint32
	Fb   int
	Tag  int
	Re   []bindSpec // Bind* calls the handler makes itself when invoked (after recording and sending its feedback)
}

func bindSx(b bindSpec) []Sx {
	if len(b.Re) == 0 {
		return L(b.Kind, b.ID, b.Fb, b.Tag)
	}
	re := L()
	for _, r := range b.Re {
		re = append(re, Sx(bindSx(r)))
	}
	return L(b.Kind, b.ID, b.Fb, b.Tag, re)
}

func parseBind(n *Node) (bindSpec, bool) {
	if n == nil || !n.IsList || len(n.Kids) < 4 {
		return bindSpec{}, false
	}
	b := bindSpec{Kind: n.Kids[0].Int(), ID: uint32(n.Kids[1].Int()), Fb: n.Kids[2].Int(), Tag: n.Kids[3].Int()}
	if len(n.Kids) >= 5 && n.Kids[4].IsList {
		for _, k := range n.Kids[4].Kids {
			if r, ok := parseBind(k); ok {
				b.Re = append(b.Re, r)
			}
		}
	}
	return b, true
}

type item struct {
	K     string // f l ol trunc close bind
	Data  []byte
	Eol   int // l: 0 LF, 1 CRLF
	Pause int // -1: none; else the peer stalls 2.3 s after that many bytes of this item's wire form
	N     uint32
	Pad   int // ol: that many bytes follow the header (a padded message with a bound event); fpad: payload size
	B     bindSpec
}

type initSpec struct {
	Pre   []item
	LateK int // 0 nothing more, 1 Late sent Delay ms after Pre, 2 peer closes Delay ms after Pre
	Late  []item
	Delay int
}

type scenario struct {
	Bin   bool
	Items []item
	Binds []bindSpec
	Init  initSpec
	Segs  []int
	Gap   int // ms between segments
}

type observation struct {
	Connect  bool
	ConnCls  int // 0: < 1.9 s, 1: 1.9 .. 2.8 s, 2: later
	Calls    []Sx
	Recv     []Sx
	End      string
	Model    string
	Serial   string
	Name     string
	JSON     string
	SVG      string
	Avail    [][2]uint32
	TopoDig  string
	IsInit   bool
	PeekOK   bool
	InitReqs int
	Pings    int
}

// ---------------------------------------------------------------- wire forms
func le32(n uint32) []byte {
	b := make([]byte, 4)
	binary.LittleEndian.PutUint32(b, n)
	return b
}

func (it item) wire() []byte {
	switch it.K {
	case "f":
		return append(le32(uint32(len(it.Data))), it.Data...)
	case "l":
		if it.Eol == 1 {
			return append(append([]byte{}, it.Data...), '\r', '\n')
		}
		return append(append([]byte{}, it.Data...), '\n')
	case "ol":
		if it.Pad > 0 {
			return append(le32(it.N), eventBlob(it.Pad)...)
		}
		return le32(it.N)
	case "fpad":
		return append(le32(uint32(it.Pad)), eventBlob(it.Pad)...)
	case "trunc":
		return it.Data
	}
	return nil
}

// a binary payload of exactly n bytes: one Binary event for id 1, then padding protobuf skips
func eventBlob(n int) []byte {
	b, _ := proto.Marshal(&rwp.OutboundMessage{Events: []*rwp.HWCEvent{{HWCID: 1, Binary: &rwp.BinaryEvent{Pressed: true, Edge: 1}}}})
	if n < len(b)+2 {
		return padPayload(n)
	}
	return append(b, padPayload(n-len(b))...)
}

func markerMsg() *rwp.OutboundMessage {
	return &rwp.OutboundMessage{Events: []*rwp.HWCEvent{{HWCID: markerID, Binary: &rwp.BinaryEvent{Pressed: true}}}}
}

func markerItem(bin bool) item {
	if bin {
		b, _ := proto.Marshal(markerMsg())
		return item{K: "f", Data: b, Pause: -1}
	}
	return item{K: "l", Data: []byte("HWC#9999=Down"), Pause: -1}
}

// ---------------------------------------------------------------- oracles (library calls made by the harness itself)
func decodeBin(payload []byte) []*rwp.OutboundMessage {
	m := &rwp.OutboundMessage{}
	proto.Unmarshal(payload, m) // error ignored, exactly as gorwp does
	return []*rwp.OutboundMessage{m}
}

// decodeLine: what the library's ASCII decoder makes of one trimmed line; ok=false if it panics
func decodeLine(line []byte) (ms []*rwp.OutboundMessage, ok bool) {
	defer func() {
		if r := recover(); r != nil {
			ms, ok = nil, false
		}
	}()
	ms = helpers.RawPanelASCIIstringsToOutboundMessages([]string{strings.TrimSpace(string(line))})
	for _, m := range ms {
		if m == nil {
			return nil, false // gorwp would dereference it
		}
		for _, e := range m.Events {
			if e == nil {
				return nil, false
			}
		}
	}
	return ms, true
}

func (it item) decoded(bin bool) []*rwp.OutboundMessage {
	switch it.K {
	case "f":
		return decodeBin(it.Data)
	case "fpad":
		return decodeBin(eventBlob(it.Pad))
	case "l":
		ms, _ := decodeLine(it.Data)
		return ms
	}
	return nil
}

func topoDigest(js string) string {
	t := &topology.Topology{}
	json.Unmarshal([]byte(js), t)
	return topoDigestOf(t)
}

func topoDigestOf(t *topology.Topology) string {
	if t == nil {
		return "nil"
	}
	type plain struct {
		Title     string
		HWc       []topology.TopologyHWcomponent
		TypeIndex map[uint32]topology.TopologyHWcTypeDef
	}
	b, err := json.Marshal(plain{t.Title, t.HWc, t.TypeIndex})
	if err != nil {
		return "err"
	}
	return string(b)
}

// ---------------------------------------------------------------- s-expressions
func evSx(e *rwp.HWCEvent) []Sx {
	bin, pul, abs, spd := L(), L(), L(), L()
	if e.Binary != nil {
		bin = L(e.Binary.Pressed, int(e.Binary.Edge))
	}
	if e.Pulsed != nil {
		pul = L(int(e.Pulsed.Value))
	}
	if e.Absolute != nil {
		abs = L(int(e.Absolute.Value))
	}
	if e.Speed != nil {
		spd = L(int(e.Speed.Value))
	}
	return L(e.HWCID, bin, pul, abs, spd)
}

func msgSx(m *rwp.OutboundMessage) Sx {
	if m == nil {
		return L(Sym("nil"))
	}
	info := L(0)
	if m.PanelInfo != nil {
		info = L(1, m.PanelInfo.Model, m.PanelInfo.Serial, m.PanelInfo.Name)
	}
	var keys []int
	for k := range m.HWCavailability {
		keys = append(keys, int(k))
	}
	sort.Ints(keys)
	avail := L()
	for _, k := range keys {
		avail = append(avail, Sx(L(k, m.HWCavailability[uint32(k)])))
	}
	topo := L(0)
	if m.PanelTopology != nil {
		topo = L(1, m.PanelTopology.Json, m.PanelTopology.Svgbase)
	}
	evs := L()
	for _, e := range m.Events {
		if e == nil {
			evs = append(evs, Sx(L(Sym("nil"))))
			continue
		}
		evs = append(evs, Sx(evSx(e)))
	}
	return L(Sym("m"), int(m.FlowMessage), info, avail, topo, evs)
}

func msgsSx(ms []*rwp.OutboundMessage) []Sx {
	r := L()
	for _, m := range ms {
		r = append(r, msgSx(m))
	}
	return r
}

func itemSx(it item, bin bool) Sx {
	switch it.K {
	case "f":
		return L(Sym("f"), it.Data, it.Pause, msgsSx(it.decoded(bin)))
	case "l":
		return L(Sym("l"), it.Data, it.Eol, it.Pause, msgsSx(it.decoded(bin)))
	case "ol":
		return L(Sym("ol"), it.N, it.Pad)
	case "fpad":
		return L(Sym("fpad"), it.Pad, msgsSx(it.decoded(bin)))
	case "trunc":
		return L(Sym("trunc"), it.Data)
	case "close":
		return L(Sym("close"), 0)
	case "bind":
		return append(L(Sym("bind")), bindSx(it.B)...)
	}
	panic("itemSx")
}

func itemsSx(its []item, bin bool) []Sx {
	r := L()
	for _, it := range its {
		r = append(r, itemSx(it, bin))
	}
	return r
}

func (sc *scenario) emit(o *observation) {
	binds := L()
	for _, b := range sc.Binds {
		binds = append(binds, Sx(bindSx(b)))
	}
	segs := L()
	for _, s := range sc.Segs {
		segs = append(segs, s)
	}
	mk := markerItem(sc.Bin)
	// topology digest table for every JSON string that occurs
	seen := map[string]bool{}
	topo := L()
	add := func(its []item) {
		for _, it := range its {
			for _, m := range it.decoded(sc.Bin) {
				if m != nil && m.PanelTopology != nil && m.PanelTopology.Json != "" && !seen[m.PanelTopology.Json] {
					seen[m.PanelTopology.Json] = true
					topo = append(topo, Sx(L(m.PanelTopology.Json, topoDigest(m.PanelTopology.Json))))
				}
			}
		}
	}
	add(sc.Init.Pre)
	add(sc.Init.Late)
	add(sc.Items)
	av := L()
	for _, kv := range o.Avail {
		av = append(av, Sx(L(kv[0], kv[1])))
	}
	obs := L(o.Connect, o.ConnCls, o.Calls, o.Recv, Sym(o.End),
		L(Sym("get"), o.Model, o.Serial, o.Name, o.JSON, o.SVG, av, o.TopoDig, o.IsInit, o.PeekOK))
	emit(L(Sym("c19"), itemsSx(sc.Items, sc.Bin), sc.Bin, binds,
		L(Sym("init"), itemsSx(sc.Init.Pre, sc.Bin), sc.Init.LateK, itemsSx(sc.Init.Late, sc.Bin), sc.Init.Delay),
		segs, sc.Gap, L(mk.Data, msgsSx(mk.decoded(sc.Bin))), topo, obs))
}

// ---------------------------------------------------------------- the scripted peer + the client under test
type runner struct {
	sc   *scenario
	mu   sync.Mutex
	cond *sync.Cond
	// harness side
	calls   []Sx
	markers int
	// peer side
	recv       []Sx
	markerFb   int
	initReqs   int
	pings      int
	initSeen   bool
	clientGone bool
}

func (r *runner) waitFor(pred func() bool, d time.Duration) bool {
	deadline := time.Now().Add(d)
	t := time.AfterFunc(d+5*time.Millisecond, func() { r.mu.Lock(); r.cond.Broadcast(); r.mu.Unlock() })
	defer t.Stop()
	r.mu.Lock()
	defer r.mu.Unlock()
	for !pred() {
		if !time.Now().Before(deadline) {
			return false
		}
		r.cond.Wait()
	}
	return true
}

func (r *runner) record(c []Sx) {
	r.mu.Lock()
	r.calls = append(r.calls, Sx(c))
	r.mu.Unlock()
}

func feedback(rp *gorwp.RawPanel, id uint32, n int) {
	for j := 0; j < n; j++ {
		rp.SetLEDColorByIndex(id, rwp.ColorIndex_Colors(2), rwp.HWCMode_StateE(1+j%5))
	}
}

func bindOne(r *runner, rp *gorwp.RawPanel, b bindSpec) {
	rebind := func() { // what the handler registers itself, from inside the callback
		for _, nb := range b.Re {
			bindOne(r, rp, nb)
		}
	}
	switch b.Kind {
	case 0:
		rp.BindTrigger(b.ID, func(id uint32, e *rwp.HWCEvent) {
			ev := evSx(e)
			r.record(L(0, id, b.Tag, ev[1], ev[2], ev[3], ev[4]))
			if b.ID == markerID {
				r.mu.Lock()
				r.markers++
				r.cond.Broadcast()
				r.mu.Unlock()
			}
			feedback(rp, b.ID, b.Fb)
			rebind()
		})
	case 1:
		rp.BindBinary(b.ID, func(id uint32, st gorwp.BinaryStatus, ed gorwp.BinaryEdge) {
			r.record(L(1, id, b.Tag, int(st), int(ed)))
			feedback(rp, b.ID, b.Fb)
			rebind()
		})
	case 2:
		rp.BindPulsed(b.ID, func(id uint32, v int) { r.record(L(2, id, b.Tag, v)); feedback(rp, b.ID, b.Fb); rebind() })
	case 3:
		rp.BindAbsolute(b.ID, func(id uint32, v int) { r.record(L(3, id, b.Tag, v)); feedback(rp, b.ID, b.Fb); rebind() })
	case 4:
		rp.BindIntensity(b.ID, func(id uint32, v int) { r.record(L(4, id, b.Tag, v)); feedback(rp, b.ID, b.Fb); rebind() })
	}
}

// what the peer reads from the client, classified
func (r *runner) peerReader(conn net.Conn, bin bool) {
	gone := func() {
		r.mu.Lock()
		r.clientGone = true
		r.cond.Broadcast()
		r.mu.Unlock()
	}
	note := func(flow int, isInit bool, fbID uint32, fbSt int, isFb bool) {
		r.mu.Lock()
		switch {
		case isInit:
			r.initReqs++
			r.initSeen = true
		case flow == 1:
			r.pings++
		case flow == 2:
			r.recv = append(r.recv, Sx(L(Sym("a"), 0)))
		case isFb && fbID == markerID:
			r.markerFb++
			r.recv = append(r.recv, Sx(L(Sym("fb"), fbID, fbSt)))
		case isFb:
			r.recv = append(r.recv, Sx(L(Sym("fb"), fbID, fbSt)))
		}
		r.cond.Broadcast()
		r.mu.Unlock()
	}
	if bin {
		for {
			h := make([]byte, 4)
			if _, err := io.ReadFull(conn, h); err != nil {
				gone()
				return
			}
			n := binary.LittleEndian.Uint32(h)
			if n > 1<<22 {
				gone()
				return
			}
			p := make([]byte, n)
			if _, err := io.ReadFull(conn, p); err != nil {
				gone()
				return
			}
			m := &rwp.InboundMessage{}
			proto.Unmarshal(p, m)
			if m.Command != nil && m.Command.SendPanelInfo {
				note(0, true, 0, 0, false)
			}
			if m.FlowMessage != 0 {
				note(int(m.FlowMessage), false, 0, 0, false)
			}
			for _, s := range m.States {
				if len(s.HWCIDs) > 0 && s.HWCMode != nil {
					note(0, false, s.HWCIDs[0], int(s.HWCMode.State), true)
				}
			}
		}
	}
	buf := make([]byte, 0, 4096)
	tmp := make([]byte, 4096)
	for {
		n, err := conn.Read(tmp)
		buf = append(buf, tmp[:n]...)
		for {
			i := bytes.IndexByte(buf, '\n')
			if i < 0 {
				break
			}
			line := strings.TrimSpace(string(buf[:i]))
			buf = buf[i+1:]
			switch {
			case line == "HeartBeatTimer=3000":
				note(0, true, 0, 0, false)
			case line == "ping":
				note(1, false, 0, 0, false)
			case line == "ack":
				note(2, false, 0, 0, false)
			case strings.HasPrefix(line, "HWC#"):
				kv := strings.SplitN(line[4:], "=", 2)
				if len(kv) == 2 {
					id, _ := strconv.Atoi(kv[0])
					st, _ := strconv.Atoi(kv[1])
					note(0, false, uint32(id), st, true)
				}
			}
		}
		if err != nil {
			gone()
			return
		}
	}
}

// segmenting writer
type segWriter struct {
	conn net.Conn
	segs []int
	gap  int
	pend []byte
	dead bool
}

func (w *segWriter) add(b []byte) { w.pend = append(w.pend, b...) }
func (w *segWriter) flush() {
	for len(w.pend) > 0 {
		n := len(w.pend)
		if len(w.segs) > 0 {
			if w.segs[0] < n {
				n = w.segs[0]
				w.segs = w.segs[1:]
			} else if w.segs[0] == n {
				w.segs = w.segs[1:]
			} else {
				w.segs[0] -= n
			}
		}
		if n <= 0 {
			n = len(w.pend)
		}
		if !w.dead {
			w.conn.SetWriteDeadline(time.Now().Add(watchdog))
			if _, err := w.conn.Write(w.pend[:n]); err != nil {
				w.dead = true
			}
		}
		w.pend = w.pend[n:]
		if w.gap > 0 && len(w.pend) > 0 {
			time.Sleep(time.Duration(w.gap) * time.Millisecond)
		}
	}
}

func runScenario(sc *scenario) *observation {
	o := &observation{End: "nostart"}
	r := &runner{sc: sc}
	r.cond = sync.NewCond(&r.mu)
	ln, err := net.Listen("tcp", "127.0.0.1:0")
	if err != nil {
		o.End = "nolisten"
		return o
	}
	defer ln.Close()
	type connRes struct {
		rp  *gorwp.RawPanel
		err error
		ms  int
	}
	ctx, cancel := context.WithCancel(context.Background())
	defer cancel()
	connCh := make(chan connRes, 1)
	goCh := make(chan *gorwp.RawPanel, 1)
	endCh := make(chan string, 1)

	// ---- peer
	go func() {
		ln.(*net.TCPListener).SetDeadline(time.Now().Add(watchdog))
		conn, err := ln.Accept()
		if err != nil {
			endCh <- "noaccept"
			return
		}
		defer conn.Close()
		probe := make([]byte, 6)
		conn.SetReadDeadline(time.Now().Add(watchdog))
		if _, err := io.ReadFull(conn, probe); err != nil {
			endCh <- "noprobe"
			return
		}
		conn.SetReadDeadline(time.Time{})
		if sc.Bin {
			conn.Write([]byte{2, 0, 0, 0, 8, 2})
		} else {
			conn.Write([]byte("RDY\n"))
		}
		go r.peerReader(conn, sc.Bin)
		if !r.waitFor(func() bool { return r.initSeen || r.clientGone }, watchdog) {
			endCh <- "noinitreq"
			return
		}
		w := &segWriter{conn: conn, gap: 0}
		for _, it := range sc.Init.Pre {
			w.add(it.wire())
		}
		w.flush()
		switch sc.Init.LateK {
		case 1:
			time.Sleep(time.Duration(sc.Init.Delay) * time.Millisecond)
			for _, it := range sc.Init.Late {
				w.add(it.wire())
			}
			w.flush()
		case 2:
			time.Sleep(time.Duration(sc.Init.Delay) * time.Millisecond)
			conn.Close()
		}
		rp := <-goCh
		if rp == nil {
			endCh <- "noconnect"
			return
		}
		w.segs = append([]int{}, sc.Segs...)
		w.gap = sc.Gap
		expected := 0
		// sync: send a marker, wait until it was dispatched; returns "" to go on
		sync := func() string {
			w.add(markerItem(sc.Bin).wire())
			w.flush()
			expected++
			want := expected
			// dispatched, and its feedback has reached the peer (so has every earlier write of the client)
			if !r.waitFor(func() bool { return (r.markers >= want && r.markerFb >= want) || r.clientGone }, watchdog) {
				return "timeout"
			}
			r.mu.Lock()
			ok := r.markers >= want && r.markerFb >= want
			r.mu.Unlock()
			if !ok {
				return "closed"
			}
			return ""
		}
		finish := func(end string) {
			if end == "closed" || end == "peerclosed" {
				time.Sleep(150 * time.Millisecond) // grace: anything still being dispatched shows up
			}
			endCh <- end
		}
		for _, it := range sc.Items {
			plain := (it.K == "f" || it.K == "l") && it.Pause < 0 || it.K == "fpad"
			if !plain {
				if e := sync(); e != "" {
					finish(e)
					return
				}
			}
			switch it.K {
			case "f", "l":
				wb := it.wire()
				if it.Pause >= 0 {
					k := it.Pause
					if k > len(wb) {
						k = len(wb)
					}
					w.add(wb[:k])
					w.flush()
					time.Sleep(2300 * time.Millisecond)
					w.add(wb[k:])
				} else {
					w.add(wb)
				}
			case "ol", "fpad":
				w.add(it.wire())
			case "trunc":
				w.add(it.wire())
				w.flush()
				conn.Close()
				finish("peerclosed")
				return
			case "close":
				conn.Close()
				finish("peerclosed")
				return
			case "bind":
				bindOne(r, rp, it.B)
			}
		}
		if e := sync(); e != "" {
			finish(e)
			return
		}
		finish("live")
	}()

	// ---- client under test
	go func() {
		t0 := time.Now()
		rp, err := gorwp.Connect(ln.Addr().String(), ctx, cancel)
		connCh <- connRes{rp, err, int(time.Since(t0) / time.Millisecond)}
	}()
	var cr connRes
	select {
	case cr = <-connCh:
	case <-time.After(6 * time.Second):
		o.End = "connecthang"
		goCh <- nil
		return o
	}
	o.Connect = cr.err == nil && cr.rp != nil
	switch {
	case cr.ms < 1900:
		o.ConnCls = 0
	case cr.ms < 2800:
		o.ConnCls = 1
	default:
		o.ConnCls = 2
	}
	if !o.Connect {
		goCh <- nil
		o.End = "noconnect"
		select {
		case <-endCh:
		case <-time.After(6 * time.Second):
		}
		return o
	}
	rp := cr.rp
	bindOne(r, rp, bindSpec{Kind: 0, ID: markerID, Fb: 1, Tag: 0})
	for _, b := range sc.Binds {
		bindOne(r, rp, b)
	}
	goCh <- rp
	total := watchdog*3 + 2*time.Second
	for _, it := range sc.Items {
		if it.Pause >= 0 {
			total += 2300 * time.Millisecond
		}
	}
	select {
	case o.End = <-endCh:
	case <-time.After(total):
		o.End = "hang"
	}
	// ---- getters
	o.Model, o.Serial, o.Name = rp.State.GetModel(), rp.State.GetSerial(), rp.State.GetName()
	o.IsInit = rp.IsInitialized()
	o.TopoDig = topoDigestOf(rp.State.GetTopology())
	o.PeekOK = peek(rp, o)
	r.mu.Lock()
	o.Calls = append(L(), r.calls...)
	o.Recv = append(L(), r.recv...)
	o.InitReqs, o.Pings = r.initReqs, r.pings
	r.mu.Unlock()
	return o
}

// unexported state read through reflection (no hook in /repo needed); false if the layout changed
func peek(rp *gorwp.RawPanel, o *observation) (ok bool) {
	defer func() {
		if r := recover(); r != nil {
			ok = false
		}
	}()
	rp.State.RLock()
	defer rp.State.RUnlock()
	v := reflect.ValueOf(&rp.State).Elem()
	fj, fs, fa := v.FieldByName("topologyJSON"), v.FieldByName("topologySVG"), v.FieldByName("hwcAvailability")
	if !fj.IsValid() || !fs.IsValid() || !fa.IsValid() || fj.Kind() != reflect.String || fs.Kind() != reflect.String || fa.Kind() != reflect.Map {
		return false
	}
	o.JSON = *(*string)(unsafe.Pointer(fj.UnsafeAddr()))
	o.SVG = *(*string)(unsafe.Pointer(fs.UnsafeAddr()))
	m := *(*map[uint32]uint32)(unsafe.Pointer(fa.UnsafeAddr()))
	var keys []int
	for k := range m {
		keys = append(keys, int(k))
	}
	sort.Ints(keys)
	for _, k := range keys {
		o.Avail = append(o.Avail, [2]uint32{uint32(k), m[uint32(k)]})
	}
	return true
}

// ---------------------------------------------------------------- expectations used ONLY to decide a re-run (timing classes)
func (sc *scenario) hasFault() bool {
	for _, it := range sc.Items {
		switch it.K {
		case "ol", "trunc", "close":
			return true
		case "f":
			if it.Pause >= 4 && it.Pause < 4+len(it.Data) {
				return true
			}
		}
	}
	return false
}

// do the four mandatory pieces arrive early enough (and before any close) for Connect to succeed?
func (sc *scenario) initComplete() bool {
	var model, serial, js, svg bool
	scan := func(its []item) {
		for _, it := range its {
			for _, m := range it.decoded(sc.Bin) {
				if m == nil {
					continue
				}
				if m.PanelInfo != nil {
					model = model || m.PanelInfo.Model != ""
					serial = serial || m.PanelInfo.Serial != ""
				}
				if m.PanelTopology != nil {
					js = js || m.PanelTopology.Json != ""
					svg = svg || m.PanelTopology.Svgbase != ""
				}
			}
		}
	}
	scan(sc.Init.Pre)
	if sc.Init.LateK == 1 && sc.Init.Delay <= 1500 {
		scan(sc.Init.Late)
	}
	return model && serial && js && svg
}

func timingSuspicious(sc *scenario, o *observation) bool {
	switch o.End {
	case "timeout", "hang", "connecthang", "noaccept", "noprobe", "noinitreq", "nolisten":
		return true
	case "noconnect":
		return sc.initComplete()
	case "closed":
		return !sc.hasFault() && sc.Init.LateK != 2
	}
	if o.Connect && (o.ConnCls != 0 && sc.Init.Delay < 1500 || !sc.initComplete() && !(sc.Init.LateK == 1 && sc.Init.Delay < 1900)) {
		return true
	}
	return false
}

// ---------------------------------------------------------------- pool
var c19stats = map[string]int{}

func runAll(scs []*scenario, par int) {
	res := make([]*observation, len(scs))
	var wg sync.WaitGroup
	sem := make(chan struct{}, par)
	for i := range scs {
		wg.Add(1)
		sem <- struct{}{}
		go func(i int) {
			defer wg.Done()
			defer func() { <-sem }()
			res[i] = runScenario(scs[i])
		}(i)
	}
	wg.Wait()
	// timing-class disagreements are re-run alone (up to two more times) before they count; when more than a
	// handful of scenarios disagree it is not the machine's load, and re-running them would only cost time
	var suspicious []int
	for i := range scs {
		if timingSuspicious(scs[i], res[i]) {
			suspicious = append(suspicious, i)
		}
	}
	c19stats["timing-suspicious"] += len(suspicious)
	if len(suspicious) <= 8 {
		for _, i := range suspicious {
			for k := 0; k < 2 && timingSuspicious(scs[i], res[i]); k++ {
				c19stats["rerun"]++
				res[i] = runScenario(scs[i])
			}
		}
	}
	for i := range scs {
		c19stats["end:"+res[i].End]++
		if scs[i].Bin {
			c19stats["mode:bin"]++
		} else {
			c19stats["mode:ascii"]++
		}
		c19stats["calls"] += len(res[i].Calls)
		c19stats["peer-received"] += len(res[i].Recv)
		c19stats["ticker-pings"] += res[i].Pings
		for _, it := range scs[i].Items {
			c19stats["item:"+it.K]++
			if it.Pause >= 0 {
				c19stats["item:paused"]++
			}
		}
		scs[i].emit(res[i])
	}
	out.Flush()
}

// ---------------------------------------------------------------- replay
func parseItems(n *Node) []item {
	var its []item
	for _, k := range n.Kids {
		if !k.IsList || len(k.Kids) == 0 {
			continue
		}
		switch k.Kids[0].Atom {
		case "f":
			if len(k.Kids) >= 3 {
				its = append(its, item{K: "f", Data: k.Kids[1].Bytes(), Pause: k.Kids[2].Int()})
			}
		case "l":
			if len(k.Kids) >= 4 {
				its = append(its, item{K: "l", Data: k.Kids[1].Bytes(), Eol: k.Kids[2].Int(), Pause: k.Kids[3].Int()})
			}
		case "ol":
			it := item{K: "ol", N: uint32(k.Kids[1].Int())}
			if len(k.Kids) >= 3 {
				it.Pad = k.Kids[2].Int()
			}
			its = append(its, it)
		case "fpad":
			its = append(its, item{K: "fpad", Pad: k.Kids[1].Int(), Pause: -1})
		case "trunc":
			its = append(its, item{K: "trunc", Data: k.Kids[1].Bytes()})
		case "close":
			its = append(its, item{K: "close"})
		case "bind":
			if b, ok := parseBind(&Node{IsList: true, Kids: k.Kids[1:]}); ok {
				its = append(its, item{K: "bind", B: b})
			}
		}
	}
	return its
}

func replayC19(line string) {
	isolateStdout()
	defer func() { out.Flush() }()
	n := parseSexp(line)
	if n == nil || !n.IsList || len(n.Kids) < 5 {
		return
	}
	switch n.Kids[0].Atom {
	case "c19race":
		replayRace(n)
		return
	case "c19bp":
		replayBP(n)
		return
	case "c19":
		if len(n.Kids) < 8 {
			return
		}
	default:
		return
	}
	sc := &scenario{Items: parseItems(n.Kids[1]), Bin: n.Kids[2].Bool()}
	for _, b := range n.Kids[3].Kids {
		if bs, ok := parseBind(b); ok {
			sc.Binds = append(sc.Binds, bs)
		}
	}
	in := n.Kids[4]
	if len(in.Kids) >= 5 {
		sc.Init = initSpec{Pre: parseItems(in.Kids[1]), LateK: in.Kids[2].Int(), Late: parseItems(in.Kids[3]), Delay: in.Kids[4].Int()}
	}
	for _, s := range n.Kids[5].Kids {
		sc.Segs = append(sc.Segs, s.Int())
	}
	sc.Gap = n.Kids[6].Int()
	runAll([]*scenario{sc}, 1)
}

// ---------------------------------------------------------------- generators
type gen struct {
	rng *Rng
	scs []*scenario
}

var sampleJSON = []string{
	`{"title":"P1","HWc":[{"id":1,"x":100,"y":200,"txt":"A","type":5}],"typeIndex":{"5":{"w":100,"h":100,"out":"rgb","in":"b4"}}}`,
	`{"HWc":[{"id":2,"x":1,"y":2,"txt":"B|C","type":7},{"id":3,"x":5,"y":6,"txt":"","type":7}],"typeIndex":{"7":{"w":50,"h":60,"in":"pb"}}}`,
	`{"HWc":[]}`,
	`{"HWc":[{"id":`, // invalid JSON: parse error path
	`[1,2]`,
}
var sampleSVG = []string{`<svg xmlns="http://www.w3.org/2000/svg" width="10" height="10"></svg>`, `<svg><rect x="1" y="2"/></svg>`, `x`}
var sampleStr = []string{"XC8", "SK_RCPV2", "PTZ Fly", "a", "0", "Ünï", "with space", "M=1;2"}

func fullInfoMsgs(variant int) []*rwp.OutboundMessage {
	return []*rwp.OutboundMessage{
		{PanelInfo: &rwp.PanelInfo{Model: "SK_MODEL" + strconv.Itoa(variant), Serial: "SN" + strconv.Itoa(1000+variant), Name: "Name" + strconv.Itoa(variant)}},
		{PanelTopology: &rwp.PanelTopology{Json: sampleJSON[variant%2], Svgbase: sampleSVG[variant%2]}},
	}
}

// a message as items in the given mode (binary: one frame; ASCII: the encoder's lines)
func (g *gen) msgItems(bin bool, ms ...*rwp.OutboundMessage) []item {
	var its []item
	for _, m := range ms {
		if bin {
			b, _ := proto.Marshal(m)
			its = append(its, item{K: "f", Data: b, Pause: -1})
			continue
		}
		var lines []string
		func() {
			defer func() { recover() }()
			lines = helpers.OutboundMessagesToRawPanelASCIIstrings([]*rwp.OutboundMessage{m})
		}()
		sort.Stable(byMapLine(lines))
		for _, l := range lines {
			if strings.ContainsAny(l, "\n") {
				continue
			}
			if _, ok := decodeLine([]byte(l)); !ok {
				continue
			}
			eol := 0
			if g.rng.Intn(4) == 0 {
				eol = 1
			}
			its = append(its, item{K: "l", Data: []byte(l), Eol: eol, Pause: -1})
		}
	}
	return its
}

// the encoder ranges over the availability map in random order: sort those lines so that a seed replays
type byMapLine []string

func (a byMapLine) Len() int      { return len(a) }
func (a byMapLine) Swap(i, j int) { a[i], a[j] = a[j], a[i] }
func (a byMapLine) Less(i, j int) bool {
	return strings.HasPrefix(a[i], "map=") && strings.HasPrefix(a[j], "map=") && a[i] < a[j]
}

func (g *gen) stdInit(bin bool, variant int) initSpec {
	return initSpec{Pre: g.msgItems(bin, fullInfoMsgs(variant)...)}
}

func (g *gen) add(sc *scenario) { g.scs = append(g.scs, sc) }

func ev(id uint32, pat int, rng *Rng) *rwp.HWCEvent {
	e := &rwp.HWCEvent{HWCID: id}
	if pat&1 != 0 {
		edges := []int{0, 1, 2, 4, 8, 16}
		e.Binary = &rwp.BinaryEvent{Pressed: rng.Bool(), Edge: rwp.BinaryEvent_EdgeID(rng.Pick(edges))}
	}
	if pat&2 != 0 {
		e.Pulsed = &rwp.PulsedEvent{Value: int32(rng.Range(-3, 3))}
	}
	if pat&4 != 0 {
		e.Absolute = &rwp.AbsoluteEvent{Value: uint32(rng.Range(0, 1000))}
	}
	if pat&8 != 0 {
		e.Speed = &rwp.SpeedEvent{Value: int32(rng.Range(-500, 500))}
	}
	return e
}

// pack events into messages of random sizes
func packEvents(rng *Rng, evs []*rwp.HWCEvent, maxPer int) []*rwp.OutboundMessage {
	var ms []*rwp.OutboundMessage
	for len(evs) > 0 {
		k := 1 + rng.Intn(maxPer)
		if k > len(evs) {
			k = len(evs)
		}
		ms = append(ms, &rwp.OutboundMessage{Events: evs[:k]})
		evs = evs[k:]
	}
	return ms
}

func (g *gen) randInfoMsg() *rwp.OutboundMessage {
	r := g.rng
	m := &rwp.OutboundMessage{}
	str := func() string {
		if r.Intn(3) == 0 {
			return ""
		}
		return sampleStr[r.Intn(len(sampleStr))]
	}
	switch r.Intn(4) {
	case 0:
		m.PanelInfo = &rwp.PanelInfo{Model: str(), Serial: str(), Name: str()}
	case 1:
		m.PanelTopology = &rwp.PanelTopology{}
		if r.Intn(3) != 0 {
			m.PanelTopology.Json = sampleJSON[r.Intn(len(sampleJSON))]
		}
		if r.Intn(3) != 0 {
			m.PanelTopology.Svgbase = sampleSVG[r.Intn(len(sampleSVG))]
		}
	case 2:
		m.HWCavailability = map[uint32]uint32{}
		for k := r.Intn(4); k > 0; k-- {
			m.HWCavailability[uint32(r.Range(1, 6))] = uint32(r.Intn(3))
		}
	case 3:
		m.FlowMessage = rwp.OutboundMessage_PING
	}
	return m
}

func (g *gen) randMsg(ids []uint32) *rwp.OutboundMessage {
	r := g.rng
	if r.Intn(4) == 0 {
		m := g.randInfoMsg()
		if r.Intn(3) == 0 {
			m.Events = append(m.Events, ev(ids[r.Intn(len(ids))], 1<<uint(r.Intn(4)), r))
		}
		return m
	}
	m := &rwp.OutboundMessage{}
	if r.Intn(6) == 0 {
		m.FlowMessage = rwp.OutboundMessage_PING
	}
	for k := 1 + r.Intn(4); k > 0; k-- {
		pat := 1 << uint(r.Intn(4))
		if r.Intn(8) == 0 {
			pat = r.Intn(16)
		}
		m.Events = append(m.Events, ev(ids[r.Intn(len(ids))], pat, r))
	}
	return m
}

func (g *gen) randBinds(ids []uint32, maxFb int) []bindSpec {
	var bs []bindSpec
	tag := 1
	for _, id := range ids {
		pat := g.rng.Intn(32)
		for k := 0; k < 5; k++ {
			if pat&(1<<uint(k)) != 0 {
				fb := 0
				if maxFb > 0 && g.rng.Intn(2) == 0 {
					fb = 1 + g.rng.Intn(maxFb)
				}
				bs = append(bs, bindSpec{Kind: k, ID: id, Fb: fb, Tag: tag})
				tag++
			}
		}
	}
	return bs
}

// gorwp's logger prints to fd 1: keep the case stream on a private descriptor and send fd 1 to /dev/null
var isolated bool

func isolateStdout() {
	if isolated {
		return
	}
	isolated = true
	fd, err := syscall.Dup(1)
	if err != nil {
		return
	}
	out.Flush()
	out = bufio.NewWriterSize(os.NewFile(uintptr(fd), "cases"), 1<<20)
	if null, err := os.OpenFile("/dev/null", os.O_WRONLY, 0); err == nil {
		syscall.Dup2(int(null.Fd()), 1)
	}
}

func genC19(tier string, rng *Rng) {
	isolateStdout()
	defer func() { out.Flush() }()
	thorough := tier == "thorough"
	g := &gen{rng: rng}
	modes := []bool{true, false}

	// G1 — dispatch table, exhaustive: 32 binding-kind patterns x 16 payload patterns (binary mode carries
	// every payload combination; ASCII carries the four single-payload kinds plus the library's other event lines)
	for _, bin := range modes {
		for grp := 0; grp < 4; grp++ {
			var binds []bindSpec
			var evs []*rwp.HWCEvent
			tag := 1
			for p := grp * 8; p < grp*8+8; p++ {
				id := uint32(100 + p)
				for k := 0; k < 5; k++ {
					if p&(1<<uint(k)) != 0 {
						binds = append(binds, bindSpec{Kind: k, ID: id, Fb: 0, Tag: tag})
						tag++
					}
				}
				for pat := 0; pat < 16; pat++ {
					if !bin && pat != 1 && pat != 2 && pat != 4 && pat != 8 {
						continue
					}
					evs = append(evs, ev(id, pat, rng))
				}
			}
			for _, maxPer := range []int{1, 5} {
				g.add(&scenario{Bin: bin, Init: g.stdInit(bin, grp), Binds: binds, Items: g.msgItems(bin, packEvents(rng, evs, maxPer)...)})
			}
		}
	}
	// edge values outside the uint8 range of BinaryEdge, extreme ids and values (binary mode only carries them)
	{
		ids := []uint32{0, 1, 255, 256, 65535, 1<<32 - 1}
		var binds []bindSpec
		var evs []*rwp.HWCEvent
		for i, id := range ids {
			for k := 0; k < 5; k++ {
				binds = append(binds, bindSpec{Kind: k, ID: id, Fb: 0, Tag: i*5 + k + 1})
			}
			evs = append(evs,
				&rwp.HWCEvent{HWCID: id, Binary: &rwp.BinaryEvent{Pressed: true, Edge: 255}},
				&rwp.HWCEvent{HWCID: id, Binary: &rwp.BinaryEvent{Pressed: false, Edge: 16}},
				&rwp.HWCEvent{HWCID: id, Pulsed: &rwp.PulsedEvent{Value: -1 << 31}},
				&rwp.HWCEvent{HWCID: id, Pulsed: &rwp.PulsedEvent{Value: 1<<31 - 1}},
				&rwp.HWCEvent{HWCID: id, Absolute: &rwp.AbsoluteEvent{Value: 1<<32 - 1}},
				&rwp.HWCEvent{HWCID: id, Speed: &rwp.SpeedEvent{Value: -1 << 31}},
				&rwp.HWCEvent{HWCID: id, RawAnalog: &rwp.RawAnalogEvent{Value: 77}},
				&rwp.HWCEvent{HWCID: id})
		}
		g.add(&scenario{Bin: true, Init: g.stdInit(true, 0), Binds: binds, Items: g.msgItems(true, packEvents(rng, evs, 4)...)})
	}

	// G2 — feedback from handlers: bursts as many frames and as one frame
	bursts := []int{5, 10, 11, 12, 40, 300}
	if thorough {
		bursts = append(bursts, 1000)
	}
	for _, bin := range modes {
		for _, n := range bursts {
			for _, fb := range []int{1, 2} {
				if fb == 2 && n > 40 {
					continue
				}
				binds := []bindSpec{{Kind: 1, ID: 7, Fb: fb, Tag: 1}, {Kind: 0, ID: 8, Fb: fb, Tag: 2}}
				var evs []*rwp.HWCEvent
				for i := 0; i < n; i++ {
					evs = append(evs, ev(uint32(7+i%2), 1, rng))
				}
				// n frames
				var each []*rwp.OutboundMessage
				for _, e := range evs {
					each = append(each, &rwp.OutboundMessage{Events: []*rwp.HWCEvent{e}})
				}
				g.add(&scenario{Bin: bin, Init: g.stdInit(bin, 1), Binds: binds, Items: g.msgItems(bin, each...)})
				if bin {
					g.add(&scenario{Bin: bin, Init: g.stdInit(bin, 1), Binds: binds, Items: g.msgItems(bin, &rwp.OutboundMessage{Events: evs})})
					g.add(&scenario{Bin: bin, Init: g.stdInit(bin, 1), Binds: binds, Items: g.msgItems(bin, &rwp.OutboundMessage{FlowMessage: 1, Events: evs}, &rwp.OutboundMessage{FlowMessage: 1})})
				}
			}
		}
	}

	// G3/G4 — pings and state updates: every history of length <= 2 over a small alphabet, then random ones
	for _, bin := range modes {
		alpha := []*rwp.OutboundMessage{
			{FlowMessage: 1},
			{PanelInfo: &rwp.PanelInfo{Model: "M2"}},
			{PanelInfo: &rwp.PanelInfo{Serial: "S2", Name: "N2"}},
			{PanelInfo: &rwp.PanelInfo{}},
			{PanelTopology: &rwp.PanelTopology{Json: sampleJSON[2]}},
			{PanelTopology: &rwp.PanelTopology{Svgbase: sampleSVG[2]}},
			{PanelTopology: &rwp.PanelTopology{Json: sampleJSON[3], Svgbase: ""}},
			{HWCavailability: map[uint32]uint32{1: 1, 2: 0}},
			{HWCavailability: map[uint32]uint32{2: 3}},
			{FlowMessage: 2},
			{FlowMessage: 1, PanelInfo: &rwp.PanelInfo{Name: "N3"}, HWCavailability: map[uint32]uint32{9: 9}},
			// an ack that also carries content: gorwp drops a binary ACK frame whole; in ASCII mode the same message
			// is an "ack" line plus separate lines that ARE dispatched
			{FlowMessage: 2, PanelInfo: &rwp.PanelInfo{Name: "N4"}, Events: []*rwp.HWCEvent{{HWCID: 1, Binary: &rwp.BinaryEvent{Pressed: true}}}},
		}
		for i := range alpha {
			g.add(&scenario{Bin: bin, Init: g.stdInit(bin, 0), Items: g.msgItems(bin, alpha[i])})
			for j := range alpha {
				if thorough || (i+j)%2 == 0 {
					g.add(&scenario{Bin: bin, Init: g.stdInit(bin, 1), Binds: []bindSpec{{Kind: 1, ID: 1, Fb: 1, Tag: 1}}, Items: g.msgItems(bin, alpha[i], alpha[j])})
				}
			}
		}
		nrand := 120
		if thorough {
			nrand = 1500
		}
		for k := 0; k < nrand; k++ {
			ids := []uint32{1, 2, 3, 4, 5, 6}
			var ms []*rwp.OutboundMessage
			for n := 1 + rng.Intn(12); n > 0; n-- {
				ms = append(ms, g.randMsg(ids))
			}
			sc := &scenario{Bin: bin, Init: g.stdInit(bin, k), Binds: g.randBinds(ids[:4], 2), Items: g.msgItems(bin, ms...)}
			// binds in the middle of the history (performed from the peer's goroutine, after a sync)
			if k%3 == 0 && len(sc.Items) > 1 {
				pos := 1 + rng.Intn(len(sc.Items)-1)
				b := item{K: "bind", B: bindSpec{Kind: rng.Intn(5), ID: ids[rng.Intn(len(ids))], Fb: rng.Intn(2), Tag: 100 + k}}
				sc.Items = append(sc.Items[:pos], append([]item{b}, sc.Items[pos:]...)...)
			}
			if k%4 == 1 {
				for n := 1 + rng.Intn(6); n > 0; n-- {
					sc.Segs = append(sc.Segs, 1+rng.Intn(9))
				}
				sc.Gap = 1
			}
			g.add(sc)
		}
	}

	// G5 — initialisation: which of the four pieces arrive, when
	for _, bin := range modes {
		pieces := []*rwp.OutboundMessage{
			{PanelInfo: &rwp.PanelInfo{Model: "MM"}},
			{PanelInfo: &rwp.PanelInfo{Serial: "SS"}},
			{PanelTopology: &rwp.PanelTopology{Json: sampleJSON[0]}},
			{PanelTopology: &rwp.PanelTopology{Svgbase: sampleSVG[0]}},
		}
		for mask := 0; mask < 16; mask++ {
			var pre, rest []*rwp.OutboundMessage
			for i, p := range pieces {
				if mask&(1<<uint(i)) != 0 {
					pre = append(pre, p)
				} else {
					rest = append(rest, p)
				}
			}
			pre = append(pre, &rwp.OutboundMessage{PanelInfo: &rwp.PanelInfo{Name: "only a name"}}, &rwp.OutboundMessage{Events: []*rwp.HWCEvent{ev(1, 1, rng)}})
			type late struct{ k, d int }
			// (late arrivals spread over the whole 2 s window: seed C19-14 polled the "initialised" condition
			// with doubling pauses - 10, 30, 70 ... 1270 ms, then nothing until the 2 s timer - so an item
			// arriving at 1.3-2.0 s made Connect fail although everything had arrived in time)
			lates := []late{{0, 0}, {1, 300}, {1, 2700}, {2, 100}, {1, 900}, {1, 1600}}
			if thorough {
				lates = append(lates, late{1, 1400}, late{2, 1000}, late{1, 600}, late{1, 1200}, late{1, 1750})
			} else if mask%5 != 0 {
				lates = []late{{0, 0}, {1, 300}}
				if mask%2 == 0 {
					lates = append(lates, late{2, 100})
				}
			}
			for _, lt := range lates {
				if mask == 15 && lt.k != 0 {
					continue
				}
				sc := &scenario{Bin: bin, Binds: []bindSpec{{Kind: 1, ID: 1, Fb: 0, Tag: 1}},
					Init:  initSpec{Pre: g.msgItems(bin, pre...), LateK: lt.k, Delay: lt.d},
					Items: g.msgItems(bin, &rwp.OutboundMessage{Events: []*rwp.HWCEvent{ev(1, 1, rng)}})}
				if lt.k == 1 {
					sc.Init.Late = g.msgItems(bin, rest...)
				}
				g.add(sc)
			}
		}
	}

	// G6 — segmentation: every single and double cut point of a short stream, dribble, random cuts
	for _, bin := range modes {
		binds := []bindSpec{{Kind: 1, ID: 1, Fb: 1, Tag: 1}, {Kind: 2, ID: 2, Fb: 0, Tag: 2}, {Kind: 0, ID: 1, Fb: 0, Tag: 3}}
		ms := []*rwp.OutboundMessage{
			{Events: []*rwp.HWCEvent{{HWCID: 1, Binary: &rwp.BinaryEvent{Pressed: true}}}},
			{FlowMessage: 1},
			{FlowMessage: 2},
			{Events: []*rwp.HWCEvent{{HWCID: 2, Pulsed: &rwp.PulsedEvent{Value: -1}}, {HWCID: 1, Binary: &rwp.BinaryEvent{Edge: 2}}}},
		}
		if bin {
			ms = append(ms, &rwp.OutboundMessage{}) // empty payload: a 4-byte frame
		}
		items := g.msgItems(bin, ms...)
		if !bin {
			items[1].Eol = 1
		}
		total := 0
		for _, it := range items {
			total += len(it.wire())
		}
		maxLen := 28
		if thorough {
			maxLen = 48
		}
		lim := total
		if lim > maxLen {
			lim = maxLen
		}
		for a := 1; a < lim; a++ {
			g.add(&scenario{Bin: bin, Init: g.stdInit(bin, 0), Binds: binds, Items: items, Segs: []int{a}, Gap: 1})
			for b := 1; a+b < lim; b++ {
				if thorough || (a+b)%3 == 0 {
					g.add(&scenario{Bin: bin, Init: g.stdInit(bin, 0), Binds: binds, Items: items, Segs: []int{a, b}, Gap: 1})
				}
			}
		}
		dribble := make([]int, total)
		for i := range dribble {
			dribble[i] = 1
		}
		g.add(&scenario{Bin: bin, Init: g.stdInit(bin, 0), Binds: binds, Items: items, Segs: dribble, Gap: 1})
		// long stream, random cuts; large payloads
		// initialisation with a topology SVG / JSON line beyond 64 KiB (and beyond 256 KiB): Connect must
		// still succeed and the getters must return it (a line reader with a fixed token limit gives up)
		for _, reps := range []int{16500, 70000} {
			huge := []*rwp.OutboundMessage{
				{PanelInfo: &rwp.PanelInfo{Model: "SK_BIG", Serial: "SN77", Name: "Big"}},
				{PanelTopology: &rwp.PanelTopology{Json: sampleJSON[0], Svgbase: "<svg>" + strings.Repeat("<g/>", reps) + "</svg>"}},
			}
			g.add(&scenario{Bin: bin, Init: initSpec{Pre: g.msgItems(bin, huge...)}, Binds: binds, Items: items})
		}
		big := &rwp.OutboundMessage{PanelTopology: &rwp.PanelTopology{Svgbase: strings.Repeat("<g/>", 1500)}}
		long := g.msgItems(bin, append(append([]*rwp.OutboundMessage{}, ms...), big, ms[0], ms[3])...)
		for k := 0; k < 4; k++ {
			var segs []int
			for n := 30; n > 0; n-- {
				segs = append(segs, 1+rng.Intn(3000))
			}
			g.add(&scenario{Bin: bin, Init: g.stdInit(bin, 0), Binds: binds, Items: long, Segs: segs, Gap: k % 2})
		}
	}
	// payload sizes (binary); 499999 is the largest legal one, 500000 the smallest illegal one (followed by
	// exactly that many bytes which would decode to a bound event if they were taken for a payload)
	{
		var items []item
		for _, n := range []int{0, 1, 999, 1000, 1001, 8191} {
			items = append(items, item{K: "f", Data: eventBlob(n), Pause: -1})
			items = append(items, g.msgItems(true, &rwp.OutboundMessage{Events: []*rwp.HWCEvent{ev(1, 1, rng)}})...)
		}
		g.add(&scenario{Bin: true, Init: g.stdInit(true, 0), Binds: []bindSpec{{Kind: 1, ID: 1, Fb: 1, Tag: 1}}, Items: items})
		one := g.msgItems(true, &rwp.OutboundMessage{Events: []*rwp.HWCEvent{ev(1, 1, rng)}})
		for _, n := range []int{65536, 499998, 499999} {
			g.add(&scenario{Bin: true, Init: g.stdInit(true, 0), Binds: []bindSpec{{Kind: 1, ID: 1, Fb: 1, Tag: 1}}, Items: append([]item{{K: "fpad", Pad: n, Pause: -1}}, one...)})
		}
		for _, n := range []int{500000, 500001} {
			g.add(&scenario{Bin: true, Init: g.stdInit(true, 0), Binds: []bindSpec{{Kind: 1, ID: 1, Fb: 1, Tag: 1}}, Items: append([]item{{K: "ol", N: uint32(n), Pad: n}}, one...)})
		}
	}

	// G7 — faults at every position of a small stream
	for _, bin := range modes {
		binds := []bindSpec{{Kind: 1, ID: 1, Fb: 1, Tag: 1}, {Kind: 0, ID: 2, Fb: 0, Tag: 2}}
		base := []*rwp.OutboundMessage{
			{Events: []*rwp.HWCEvent{{HWCID: 1, Binary: &rwp.BinaryEvent{Pressed: true}}}},
			{FlowMessage: 1, Events: []*rwp.HWCEvent{{HWCID: 2, Absolute: &rwp.AbsoluteEvent{Value: 5}}}},
			{PanelInfo: &rwp.PanelInfo{Name: "after"}, Events: []*rwp.HWCEvent{{HWCID: 1, Binary: &rwp.BinaryEvent{}}}},
		}
		items := g.msgItems(bin, base...)
		insert := func(pos int, its ...item) []item {
			r := append([]item{}, items[:pos]...)
			r = append(r, its...)
			return append(r, items[pos:]...)
		}
		for pos := 0; pos <= len(items); pos++ {
			if bin {
				hdrs := []uint32{500000, 500001, 1 << 31, 1<<32 - 1}
				if !thorough {
					hdrs = []uint32{500000, 1<<32 - 1}
				}
				for _, h := range hdrs {
					g.add(&scenario{Bin: bin, Init: g.stdInit(bin, 0), Binds: binds, Items: insert(pos, item{K: "ol", N: h})})
				}
				// junk payloads with a correct header keep the stream in sync
				for k := 0; k < 2; k++ {
					g.add(&scenario{Bin: bin, Init: g.stdInit(bin, 0), Binds: binds, Items: insert(pos, item{K: "f", Data: rng.Bytes(rng.Intn(40)), Pause: -1})})
				}
			} else {
				junk := []string{"", " ", "\t", "nonsense", "HWC#", "HWC#x=Down", "HWC#1=", "map=", "map=1", "_model=", "ack ", " ack", "ACK", "ack\r", "HWC#1=Down\r", "HWC#2=Abs:", "HWC#1.=Up", "{}", "[]", string([]byte{0, 1, 2, 255}), "HWC#1=Down HWC#1=Up"}
				for _, j := range junk {
					if _, ok := decodeLine([]byte(j)); !ok {
						c19stats["junk-line-decoder-panics"]++
						continue
					}
					if pos == 1 || thorough {
						g.add(&scenario{Bin: bin, Init: g.stdInit(bin, 0), Binds: binds, Items: insert(pos, item{K: "l", Data: []byte(j), Pause: -1})})
					}
				}
			}
			g.add(&scenario{Bin: bin, Init: g.stdInit(bin, 0), Binds: binds, Items: append(append([]item{}, items[:pos]...), item{K: "close"})})
		}
		// a frame cut short at every k, then close
		victim := items[1].wire()
		for k := 1; k < len(victim); k++ {
			its := append([]item{items[0]}, item{K: "trunc", Data: victim[:k]})
			g.add(&scenario{Bin: bin, Init: g.stdInit(bin, 0), Binds: binds, Items: its})
		}
		// every LATER item cut short too, in particular right before its terminator: an ASCII line whose
		// text is complete but whose line feed never comes (HWC#2=Abs:5 + close) is a broken frame, not an
		// event (seed C19-7: bufio.Scanner hands the unterminated rest to the dispatcher at EOF)
		for j := 2; j < len(items); j++ {
			w := items[j].wire()
			for k := 1; k < len(w); k++ {
				if !thorough && k > 2 && k < len(w)-2 {
					continue
				}
				its := append(append([]item{}, items[:j]...), item{K: "trunc", Data: w[:k]})
				g.add(&scenario{Bin: bin, Init: g.stdInit(bin, 0), Binds: binds, Items: its})
			}
		}
		// a 2.3 s pause inside a frame: breaks it iff the header is complete and the payload is not (binary);
		// harmless in ASCII mode and inside the header
		ks := []int{0, 2, 4, 5, len(victim) - 1, len(victim)}
		if thorough {
			ks = nil
			for k := 0; k <= len(victim); k++ {
				ks = append(ks, k)
			}
		}
		for _, k := range ks {
			its := append([]item{}, items...)
			its[1].Pause = k
			g.add(&scenario{Bin: bin, Init: g.stdInit(bin, 0), Binds: binds, Items: its})
		}
		if bin {
			// pause after the header of an EMPTY frame: nothing to wait for
			its := append([]item{}, items...)
			its = append(its[:1], append([]item{{K: "f", Data: nil, Pause: 4}}, its[1:]...)...)
			g.add(&scenario{Bin: bin, Init: g.stdInit(bin, 0), Binds: binds, Items: its})
		}
	}

	// G11 — handlers that call Bind* themselves, from inside the callback (for other ids: "shift" keys arming
	// other components; for their own id: one-shot handlers replacing themselves; for another kind of the same
	// id), followed by further events, a ping and a state update.  A registration made by a handler is in
	// force from the next event on.
	for _, bin := range modes {
		one := func(id uint32, pat int) *rwp.OutboundMessage {
			return &rwp.OutboundMessage{Events: []*rwp.HWCEvent{ev(id, pat, rng)}}
		}
		patOf := []int{1, 1, 2, 4, 8} // a payload that kind k (0 trigger .. 4 intensity) reacts to
		tail := []*rwp.OutboundMessage{{FlowMessage: 1}, {PanelInfo: &rwp.PanelInfo{Name: "after-bind"}}, {FlowMessage: 1, Events: []*rwp.HWCEvent{ev(61, 1, rng)}}}
		// every kind of handler calling every Bind* function
		for k := 0; k < 5; k++ {
			var re []bindSpec
			for k2 := 0; k2 < 5; k2++ {
				re = append(re, bindSpec{Kind: k2, ID: uint32(60 + k2), Fb: k2 % 2, Tag: 10 + k2})
			}
			arm := bindSpec{Kind: k, ID: uint32(50 + k), Fb: 1, Tag: 1, Re: re}
			var ms []*rwp.OutboundMessage
			for k2 := 0; k2 < 5; k2++ {
				ms = append(ms, one(uint32(60+k2), patOf[k2])) // not armed yet: nothing happens
			}
			ms = append(ms, one(uint32(50+k), patOf[k]))
			for k2 := 0; k2 < 5; k2++ {
				ms = append(ms, one(uint32(60+k2), patOf[k2]))
			}
			ms = append(ms, tail...)
			ms = append(ms, one(uint32(50+k), patOf[k])) // arming again re-registers the same handlers
			ms = append(ms, one(60, 1), one(61, 1))
			g.add(&scenario{Bin: bin, Init: g.stdInit(bin, k), Binds: []bindSpec{arm}, Items: g.msgItems(bin, ms...)})
		}
		// a one-shot handler replacing itself, twice, the last one with feedback
		{
			h3 := bindSpec{Kind: 1, ID: 30, Fb: 2, Tag: 3}
			h2 := bindSpec{Kind: 1, ID: 30, Fb: 0, Tag: 2, Re: []bindSpec{h3}}
			h1 := bindSpec{Kind: 1, ID: 30, Fb: 1, Tag: 1, Re: []bindSpec{h2}}
			ms := []*rwp.OutboundMessage{one(30, 1), one(30, 1), {FlowMessage: 1}, one(30, 1), one(30, 1)}
			g.add(&scenario{Bin: bin, Init: g.stdInit(bin, 0), Binds: []bindSpec{h1}, Items: g.msgItems(bin, append(ms, tail...)...)})
			if bin { // all four events and a ping in ONE frame
				evs := []*rwp.HWCEvent{ev(30, 1, rng), ev(30, 1, rng), ev(30, 1, rng), ev(30, 1, rng)}
				g.add(&scenario{Bin: bin, Init: g.stdInit(bin, 0), Binds: []bindSpec{h1}, Items: g.msgItems(bin, &rwp.OutboundMessage{FlowMessage: 1, Events: evs}, tail[0], tail[2])})
			}
		}
		// the trigger handler of an id registers the binary handler of the SAME id while the event is being dispatched
		{
			h := bindSpec{Kind: 0, ID: 40, Fb: 0, Tag: 1, Re: []bindSpec{{Kind: 1, ID: 40, Fb: 1, Tag: 2}, {Kind: 0, ID: 41, Fb: 0, Tag: 3}}}
			ms := []*rwp.OutboundMessage{one(40, 1), one(40, 1), one(41, 1)}
			g.add(&scenario{Bin: bin, Init: g.stdInit(bin, 1), Binds: []bindSpec{h}, Items: g.msgItems(bin, append(ms, tail...)...)})
		}
		// a burst: every invocation re-registers and sends feedback
		{
			h := bindSpec{Kind: 1, ID: 7, Fb: 1, Tag: 1}
			h.Re = []bindSpec{{Kind: 1, ID: 7, Fb: 1, Tag: 1, Re: []bindSpec{{Kind: 1, ID: 7, Fb: 1, Tag: 5}}}, {Kind: 2, ID: 8, Fb: 0, Tag: 2}}
			var each []*rwp.OutboundMessage
			var evs []*rwp.HWCEvent
			for i := 0; i < 40; i++ {
				e := ev(7, 1, rng)
				evs = append(evs, e)
				each = append(each, &rwp.OutboundMessage{Events: []*rwp.HWCEvent{e}})
			}
			g.add(&scenario{Bin: bin, Init: g.stdInit(bin, 1), Binds: []bindSpec{h}, Items: g.msgItems(bin, append(each, tail...)...)})
			if bin {
				g.add(&scenario{Bin: bin, Init: g.stdInit(bin, 1), Binds: []bindSpec{h}, Items: g.msgItems(bin, &rwp.OutboundMessage{Events: evs}, tail[0], tail[2])})
			}
		}
		// random histories in which some of the initial handlers register others
		nrb := 20
		if thorough {
			nrb = 200
		}
		for k := 0; k < nrb; k++ {
			ids := []uint32{1, 2, 3, 4}
			binds := g.randBinds(ids[:3], 1)
			for i := range binds {
				if rng.Intn(2) == 0 {
					for n := 1 + rng.Intn(2); n > 0; n-- {
						nb := bindSpec{Kind: rng.Intn(5), ID: ids[rng.Intn(len(ids))], Fb: rng.Intn(2), Tag: 200 + 10*i + n}
						if rng.Intn(3) == 0 {
							nb.Re = []bindSpec{{Kind: rng.Intn(5), ID: ids[rng.Intn(len(ids))], Fb: 0, Tag: 300 + 10*i + n}}
						}
						binds[i].Re = append(binds[i].Re, nb)
					}
				}
			}
			var ms []*rwp.OutboundMessage
			for n := 3 + rng.Intn(10); n > 0; n-- {
				ms = append(ms, g.randMsg(ids))
			}
			g.add(&scenario{Bin: bin, Init: g.stdInit(bin, k), Binds: binds, Items: g.msgItems(bin, ms...)})
		}
	}

	par := 64
	runAll(g.scs, par)

	// G9 — Bind* from another goroutine while events flow (child process; -race build in the thorough tier)
	raceCases(thorough)

	st := map[string]interface{}{"what": "C19 scenarios", "scenarios": len(g.scs)}
	for k, v := range c19stats {
		st[k] = v
	}
	meta(st)
}

// a binary payload of exactly n bytes that protobuf accepts: one unknown length-delimited field
func padPayload(n int) []byte {
	if n == 0 {
		return nil
	}
	if n == 1 {
		return []byte{8} // truncated varint field: Unmarshal error, message stays empty
	}
	// tag for field 1000, wire type 2: varint(1000<<3|2)=8002 -> 0xC2 0x3E ; then length varint
	for l := n; l >= 0; l-- {
		var lv []byte
		x := uint64(l)
		for x >= 0x80 {
			lv = append(lv, byte(x)|0x80)
			x >>= 7
		}
		lv = append(lv, byte(x))
		if 2+len(lv)+l == n {
			b := append([]byte{0xC2, 0x3E}, lv...)
			return append(b, make([]byte, l)...)
		}
	}
	return make([]byte, n)
}

// ---------------------------------------------------------------- G9: race child
// (c19race MODE NBINDS NEVENTS | RACE_BUILD RACES FATAL CALLS_OK END)
func raceCases(thorough bool) {
	exe, err := os.Executable()
	if err != nil {
		return
	}
	raceBuild := false
	if thorough {
		// build this harness with the race detector (needs cgo); offline, from the module cache
		dir := filepath.Dir(exe)
		if _, err := os.Stat(filepath.Join(dir, "c19.go")); err == nil {
			wdir := filepath.Join(dir, "..", "..", "work", "C19")
			os.MkdirAll(wdir, 0o755)
			target := filepath.Join(wdir, "harness_race")
			cmd := exec.Command("go", "build", "-race", "-tags", "verif", "-o", target, ".")
			cmd.Dir = dir
			cmd.Env = append(os.Environ(), "CGO_ENABLED=1")
			if outb, err := cmd.CombinedOutput(); err == nil {
				exe = target
				raceBuild = true
			} else {
				meta(map[string]interface{}{"what": "C19 race build unavailable", "output": string(outb)})
			}
		}
	}
	for _, bin := range []bool{true, false} {
		n := 1
		if thorough {
			n = 3
		}
		for k := 0; k < n; k++ {
			runRaceChild(exe, raceBuild, bin, 400, 600)
		}
	}
	// back-pressure: the panel sends a burst of events and reads nothing for 1.5 s while every handler
	// answers with a large state; afterwards everything must have been dispatched and every answer must
	// arrive (seed C19-13: the keep-alive ping queued into the channel that the same goroutine drains -
	// with the queue full at a tick the client locks up for good)
	for _, bin := range []bool{true, false} {
		runBPChild(exe, bin, 300, 64)
		if thorough {
			runBPChild(exe, bin, 120, 256)
		}
	}
}

// (c19bp MODE NEVENTS FBKB | CALLS_OK FEEDBACK_OK END)
func runBPChild(exe string, bin bool, nevents, fbKB int) {
	mode := "0"
	if bin {
		mode = "1"
	}
	cmd := exec.Command(exe, "C19", "-replay", "/dev/null")
	cmd.Env = append(os.Environ(), "C19_BP_CHILD="+mode+","+strconv.Itoa(nevents)+","+strconv.Itoa(fbKB))
	var stdout, stderr bytes.Buffer
	cmd.Stdout, cmd.Stderr = &stdout, &stderr
	done := make(chan error, 1)
	cmd.Start()
	go func() { done <- cmd.Wait() }()
	end := "hang"
	select {
	case <-done:
		end = "exit"
	case <-time.After(60 * time.Second):
		cmd.Process.Kill()
	}
	callsOK := strings.Contains(stdout.String(), "CHILD calls-ok")
	fbOK := strings.Contains(stdout.String(), "CHILD feedback-ok")
	if end == "exit" {
		if strings.Contains(stdout.String(), "CHILD live") {
			end = "live"
		} else {
			end = "stalled"
		}
	}
	c19stats["backpressure-child-runs"]++
	emit(L(Sym("c19bp"), bin, nevents, fbKB, L(callsOK, fbOK, Sym(end))))
}

func replayBP(n *Node) {
	exe, err := os.Executable()
	if err != nil {
		return
	}
	runBPChild(exe, n.Kids[1].Bool(), n.Kids[2].Int(), n.Kids[3].Int())
}

func init() {
	spec := os.Getenv("C19_BP_CHILD")
	if spec == "" {
		return
	}
	os.Unsetenv("C19_BP_CHILD")
	parts := strings.Split(spec, ",")
	ne, _ := strconv.Atoi(parts[1])
	kb, _ := strconv.Atoi(parts[2])
	bpChild(parts[0] == "1", ne, kb)
	os.Exit(0)
}

func bpChild(bin bool, nevents, fbKB int) {
	if caseOut == nil {
		caseOut = os.Stdout
	}
	ln, err := net.Listen("tcp", "127.0.0.1:0")
	if err != nil {
		return
	}
	g := &gen{rng: NewRng(11)}
	goCh := make(chan struct{})
	var fbSeen int32
	peerDone := make(chan struct{})
	go func() {
		defer close(peerDone)
		conn, err := ln.Accept()
		if err != nil {
			return
		}
		probe := make([]byte, 6)
		io.ReadFull(conn, probe)
		if bin {
			conn.Write([]byte{2, 0, 0, 0, 8, 2})
		} else {
			conn.Write([]byte("RDY\n"))
		}
		// reader of what the client sends: counts the large answers; does not start before the pause is over
		startRead := make(chan struct{})
		go func() {
			<-startRead
			if bin {
				for {
					h := make([]byte, 4)
					if _, err := io.ReadFull(conn, h); err != nil {
						return
					}
					n := binary.LittleEndian.Uint32(h)
					if n > 1<<24 {
						return
					}
					pl := make([]byte, n)
					if _, err := io.ReadFull(conn, pl); err != nil {
						return
					}
					m := &rwp.InboundMessage{}
					proto.Unmarshal(pl, m)
					for _, st := range m.States {
						if st.HWCGfx != nil {
							atomic.AddInt32(&fbSeen, 1)
						}
					}
				}
			}
			sc := bufio.NewReaderSize(conn, 1<<20)
			for {
				line, err := sc.ReadString('\n')
				if strings.HasPrefix(line, "HWCg") && strings.Contains(line, "=0/") {
					atomic.AddInt32(&fbSeen, 1)
				}
				if err != nil {
					return
				}
			}
		}()
		// during initialisation the peer must read (the init request); do that on this goroutine with deadlines
		drainUntil := func(d time.Duration) {
			conn.SetReadDeadline(time.Now().Add(d))
			io.Copy(io.Discard, conn)
			conn.SetReadDeadline(time.Time{})
		}
		time.Sleep(50 * time.Millisecond)
		for _, it := range g.msgItems(bin, fullInfoMsgs(0)...) {
			conn.Write(it.wire())
		}
		drainUntil(300 * time.Millisecond)
		<-goCh
		drainUntil(100 * time.Millisecond)
		var burst []byte
		for i := 0; i < nevents; i++ {
			e := &rwp.HWCEvent{HWCID: 7, Binary: &rwp.BinaryEvent{Pressed: i%2 == 0}}
			for _, it := range g.msgItems(bin, &rwp.OutboundMessage{Events: []*rwp.HWCEvent{e}}) {
				burst = append(burst, it.wire()...)
			}
		}
		conn.Write(burst)
		time.Sleep(1500 * time.Millisecond) // the panel reads nothing
		close(startRead)
		time.Sleep(300 * time.Millisecond)
		conn.Write(markerItem(bin).wire())
		time.Sleep(20 * time.Second)
	}()
	ctx, cancel := context.WithCancel(context.Background())
	rp, err := gorwp.Connect(ln.Addr().String(), ctx, cancel)
	if err != nil || rp == nil {
		fmt.Fprintln(caseOut, "CHILD noconnect")
		return
	}
	var calls int32
	big := make([]byte, fbKB*1024)
	for i := range big {
		big[i] = byte(i)
	}
	w, h := 256, fbKB*1024/2/256
	rp.BindBinary(7, func(uint32, gorwp.BinaryStatus, gorwp.BinaryEdge) {
		atomic.AddInt32(&calls, 1)
		rp.SendRawState(&rwp.HWCState{HWCIDs: []uint32{7}, HWCGfx: &rwp.HWCGfx{ImageType: rwp.HWCGfx_RGB16bit, W: uint32(w), H: uint32(h), ImageData: big}})
	})
	markerCh := make(chan struct{}, 1)
	rp.BindTrigger(markerID, func(uint32, *rwp.HWCEvent) {
		select {
		case markerCh <- struct{}{}:
		default:
		}
	})
	close(goCh)
	select {
	case <-markerCh:
		fmt.Fprintln(caseOut, "CHILD live")
	case <-time.After(25 * time.Second):
		fmt.Fprintln(caseOut, "CHILD stalled")
	}
	// the answers may still be on their way: wait for them (bounded)
	for t := 0; t < 100 && int(atomic.LoadInt32(&fbSeen)) < nevents; t++ {
		time.Sleep(100 * time.Millisecond)
	}
	if int(atomic.LoadInt32(&calls)) == nevents {
		fmt.Fprintln(caseOut, "CHILD calls-ok")
	} else {
		fmt.Fprintln(caseOut, "CHILD calls", atomic.LoadInt32(&calls), "of", nevents)
	}
	if int(atomic.LoadInt32(&fbSeen)) == nevents {
		fmt.Fprintln(caseOut, "CHILD feedback-ok")
	} else {
		fmt.Fprintln(caseOut, "CHILD feedback", atomic.LoadInt32(&fbSeen), "of", nevents)
	}
	cancel()
}

func runRaceChild(exe string, raceBuild bool, bin bool, nbinds, nevents int) {
	mode := "0"
	if bin {
		mode = "1"
	}
	cmd := exec.Command(exe, "C19", "-replay", "/dev/null")
	cmd.Env = append(os.Environ(), "C19_RACE_CHILD="+mode+","+strconv.Itoa(nbinds)+","+strconv.Itoa(nevents), "GORACE=halt_on_error=0")
	var stdout, stderr bytes.Buffer
	cmd.Stdout, cmd.Stderr = &stdout, &stderr
	done := make(chan error, 1)
	cmd.Start()
	go func() { done <- cmd.Wait() }()
	end := "hang"
	select {
	case <-done:
		end = "exit"
	case <-time.After(40 * time.Second):
		cmd.Process.Kill()
	}
	races := strings.Count(stderr.String(), "WARNING: DATA RACE")
	fatal := strings.Contains(stderr.String(), "fatal error: concurrent map")
	callsOK := strings.Contains(stdout.String(), "CHILD calls-ok")
	live := strings.Contains(stdout.String(), "CHILD live")
	if end == "exit" && !live {
		end = "stalled"
	}
	if end == "exit" {
		end = "live"
	}
	c19stats["race-child-runs"]++
	c19stats["race-reports"] += races
	emit(L(Sym("c19race"), bin, nbinds, nevents, L(raceBuild, races, fatal, callsOK, Sym(end))))
}

func replayRace(n *Node) {
	exe, err := os.Executable()
	if err != nil {
		return
	}
	runRaceChild(exe, false, n.Kids[1].Bool(), n.Kids[2].Int(), n.Kids[3].Int())
}

// the child: events flow for ids 1..4 (bound before), while another goroutine binds ids 1000.. (never used by events)
func init() {
	spec := os.Getenv("C19_RACE_CHILD")
	if spec == "" {
		return
	}
	os.Unsetenv("C19_RACE_CHILD")
	parts := strings.Split(spec, ",")
	bin := parts[0] == "1"
	nb, _ := strconv.Atoi(parts[1])
	ne, _ := strconv.Atoi(parts[2])
	raceChild(bin, nb, ne)
	os.Exit(0)
}

func raceChild(bin bool, nbinds, nevents int) {
	if caseOut == nil { // started from init(), before main set it
		caseOut = os.Stdout
	}
	ln, err := net.Listen("tcp", "127.0.0.1:0")
	if err != nil {
		return
	}
	g := &gen{rng: NewRng(7)}
	var mu sync.Mutex
	calls := 0
	markers := 0
	markerCh := make(chan struct{}, 2)
	goCh := make(chan struct{})
	phase2Ch := make(chan struct{})
	// handlers registered while events flow: index i (0 <= i < 2*nbinds), goroutine A takes the even
	// indices, goroutine B the odd ones (seed C19-12: a copy-on-write handler table whose writers do
	// not exclude each other loses registrations made from two goroutines at once)
	lateID := func(i int) uint32 { return uint32(1000 + i) }
	late := make([]int32, 2*nbinds)
	go func() {
		conn, err := ln.Accept()
		if err != nil {
			return
		}
		probe := make([]byte, 6)
		io.ReadFull(conn, probe)
		if bin {
			conn.Write([]byte{2, 0, 0, 0, 8, 2})
		} else {
			conn.Write([]byte("RDY\n"))
		}
		go io.Copy(io.Discard, conn)
		time.Sleep(50 * time.Millisecond)
		for _, it := range g.msgItems(bin, fullInfoMsgs(0)...) {
			conn.Write(it.wire())
		}
		<-goCh
		for i := 0; i < nevents; i++ {
			e := &rwp.HWCEvent{HWCID: uint32(1 + i%4), Binary: &rwp.BinaryEvent{Pressed: i%2 == 0}}
			for _, it := range g.msgItems(bin, &rwp.OutboundMessage{Events: []*rwp.HWCEvent{e}}) {
				conn.Write(it.wire())
			}
			if i%50 == 0 {
				time.Sleep(time.Millisecond)
			}
		}
		conn.Write(markerItem(bin).wire())
		// phase 2 (after every Bind* call of the registering goroutines has returned): one event of the
		// matching kind for each handler registered while events flowed, then the marker again
		<-phase2Ch
		for i := 0; i < 2*nbinds; i++ {
			e := &rwp.HWCEvent{HWCID: lateID(i)}
			switch i % 5 {
			case 0, 4:
				e.Binary = &rwp.BinaryEvent{Pressed: true}
			case 1:
				e.Pulsed = &rwp.PulsedEvent{Value: 1}
			case 2:
				e.Absolute = &rwp.AbsoluteEvent{Value: 5}
			case 3:
				e.Speed = &rwp.SpeedEvent{Value: 2}
			}
			for _, it := range g.msgItems(bin, &rwp.OutboundMessage{Events: []*rwp.HWCEvent{e}}) {
				conn.Write(it.wire())
			}
			if i%50 == 0 {
				time.Sleep(time.Millisecond)
			}
		}
		conn.Write(markerItem(bin).wire())
	}()
	ctx, cancel := context.WithCancel(context.Background())
	rp, err := gorwp.Connect(ln.Addr().String(), ctx, cancel)
	if err != nil || rp == nil {
		fmt.Fprintln(caseOut, "CHILD noconnect")
		return
	}
	for id := uint32(1); id <= 4; id++ {
		rp.BindBinary(id, func(uint32, gorwp.BinaryStatus, gorwp.BinaryEdge) { mu.Lock(); calls++; mu.Unlock() })
	}
	rp.BindTrigger(markerID, func(uint32, *rwp.HWCEvent) {
		mu.Lock()
		markers++
		mu.Unlock()
		select {
		case markerCh <- struct{}{}:
		default:
		}
	})
	close(goCh)
	var wg sync.WaitGroup
	for who := 0; who < 2; who++ { // two "other goroutines" registering handlers while events flow
		wg.Add(1)
		go func(who int) {
			defer wg.Done()
			for i := who; i < 2*nbinds; i += 2 {
				id, slot := lateID(i), &late[i] // (go 1.19 loop variable semantics: take the address now)
				hit := func() { atomic.AddInt32(slot, 1) }
				switch i % 5 {
				case 0:
					rp.BindBinary(id, func(uint32, gorwp.BinaryStatus, gorwp.BinaryEdge) { hit() })
				case 1:
					rp.BindPulsed(id, func(uint32, int) { hit() })
				case 2:
					rp.BindAbsolute(id, func(uint32, int) { hit() })
				case 3:
					rp.BindIntensity(id, func(uint32, int) { hit() })
				case 4:
					rp.BindTrigger(id, func(uint32, *rwp.HWCEvent) { hit() })
				}
				if i%40 == who {
					time.Sleep(200 * time.Microsecond)
				}
			}
		}(who)
	}
	select {
	case <-markerCh:
		fmt.Fprintln(caseOut, "CHILD live")
	case <-time.After(watchdog + 5*time.Second):
		fmt.Fprintln(caseOut, "CHILD stalled")
	}
	wg.Wait()
	close(phase2Ch)
	select {
	case <-markerCh:
	case <-time.After(watchdog + 5*time.Second):
	}
	lateBad := 0
	for i := range late {
		if atomic.LoadInt32(&late[i]) != 1 {
			lateBad++
		}
	}
	mu.Lock()
	if calls == nevents && lateBad == 0 {
		fmt.Fprintln(caseOut, "CHILD calls-ok")
	} else {
		fmt.Fprintln(caseOut, "CHILD calls", calls, "of", nevents, "; handlers registered meanwhile not invoked exactly once:", lateBad, "of", len(late))
	}
	mu.Unlock()
	cancel()
}
