package main

import (
	"encoding/hex"
	"encoding/json"
	"fmt"
	"strconv"
	"strings"
)

// ---- deterministic PRNG (splitmix64): every random choice derives from VERIF_SEED ----
type Rng struct{ s uint64 }

func NewRng(seed uint64) *Rng { return &Rng{seed*0x9E3779B97F4A7C15 + 0x1234567} }
func (r *Rng) U64() uint64 {
	r.s += 0x9E3779B97F4A7C15
	z := r.s
	z = (z ^ (z >> 30)) * 0xBF58476D1CE4E5B9
	z = (z ^ (z >> 27)) * 0x94D049BB133111EB
	return z ^ (z >> 31)
}
func (r *Rng) Intn(n int) int {
	if n <= 0 {
		return 0
	}
	return int(r.U64() % uint64(n))
}
func (r *Rng) Range(lo, hi int) int { return lo + r.Intn(hi-lo+1) } // inclusive
func (r *Rng) Bool() bool           { return r.U64()&1 == 1 }
func (r *Rng) Pick(xs []int) int    { return xs[r.Intn(len(xs))] }
func (r *Rng) Bytes(n int) []byte {
	b := make([]byte, n)
	for i := range b {
		b[i] = byte(r.U64())
	}
	return b
}

// ---- s-expression printing ----
type Sx interface{}
type Sym string

func sx(b *strings.Builder, v Sx) {
	switch x := v.(type) {
	case int:
		b.WriteString(strconv.Itoa(x))
	case int64:
		b.WriteString(strconv.FormatInt(x, 10))
	case uint32:
		b.WriteString(strconv.FormatUint(uint64(x), 10))
	case int32:
		b.WriteString(strconv.FormatInt(int64(x), 10))
	case uint64:
		b.WriteString(strconv.FormatUint(x, 10))
	case bool:
		if x {
			b.WriteString("1")
		} else {
			b.WriteString("0")
		}
	case Sym:
		b.WriteString(string(x))
	case []byte:
		b.WriteString("#")
		b.WriteString(hex.EncodeToString(x))
	case string:
		b.WriteString("#")
		b.WriteString(hex.EncodeToString([]byte(x)))
	case []Sx:
		b.WriteString("(")
		for i, e := range x {
			if i > 0 {
				b.WriteString(" ")
			}
			sx(b, e)
		}
		b.WriteString(")")
	default:
		panic(fmt.Sprintf("sx: unsupported %T", v))
	}
}

func L(xs ...Sx) []Sx { return xs }

func emit(v Sx) {
	var b strings.Builder
	sx(&b, v)
	b.WriteString("\n")
	out.WriteString(b.String())
}

func meta(m map[string]interface{}) {
	j, _ := json.Marshal(m)
	out.WriteString("META " + string(j) + "\n")
}

// ---- minimal s-expression reader (for -replay) ----
type Node struct {
	IsList bool
	Atom   string
	Kids   []*Node
}

func parseSexp(s string) *Node {
	pos := 0
	var rec func() *Node
	rec = func() *Node {
		for pos < len(s) && (s[pos] == ' ' || s[pos] == '\t') {
			pos++
		}
		if pos >= len(s) {
			return nil
		}
		if s[pos] == '(' {
			pos++
			n := &Node{IsList: true}
			for {
				for pos < len(s) && s[pos] == ' ' {
					pos++
				}
				if pos >= len(s) {
					return n
				}
				if s[pos] == ')' {
					pos++
					return n
				}
				n.Kids = append(n.Kids, rec())
			}
		}
		st := pos
		for pos < len(s) && s[pos] != ' ' && s[pos] != ')' && s[pos] != '(' {
			pos++
		}
		return &Node{Atom: s[st:pos]}
	}
	return rec()
}

func (n *Node) Int() int {
	v, _ := strconv.ParseInt(n.Atom, 10, 64)
	return int(v)
}
func (n *Node) Bool() bool { return n.Int() != 0 }
func (n *Node) Bytes() []byte {
	b, _ := hex.DecodeString(strings.TrimPrefix(n.Atom, "#"))
	return b
}
