// C01 (+ inbound encoder half of C06): runs InboundMessagesToRawPanelASCIIstrings under
// recover() and prints (c01 (msg ...) obs), obs = panic | (#line ...).
package main

import (
	"fmt"

	rpl "github.com/SKAARHOJ/rawpanel-lib"
	rwp "github.com/SKAARHOJ/rawpanel-lib/ibeam_rawpanel"
	"google.golang.org/protobuf/proto"
)

func init() {
	props["C01"] = genC01
	replays["C01"] = replayC01
}

var c01stats = map[string]int{}
var c01sizes = map[string]int{}

// every fifth converter call runs with the exported debug switch on: printing must not change results
var dbgCalls int

func dbgTick() {
	dbgCalls++
	rpl.DebugRWPhelpers = dbgCalls%5 == 0
}

func callEnc(msgs []*rwp.InboundMessage) (obs Sx) {
	defer func() {
		if r := recover(); r != nil {
			obs = Sym("panic")
		}
	}()
	dbgTick()
	lines := rpl.InboundMessagesToRawPanelASCIIstrings(msgs)
	r := []Sx{}
	for _, l := range lines {
		r = append(r, l)
	}
	return r
}

func runC01(kind string, msgsIn []*rwp.InboundMessage) {
	var msgs []*rwp.InboundMessage
	for _, m := range msgsIn { // a nil *InboundMessage in the argument slice is the caller's bug, not in scope
		if m != nil {
			msgs = append(msgs, m)
		}
	}
	obs := callEnc(msgs)
	c01stats[kind]++
	if s, ok := obs.(Sym); ok && s == "panic" {
		c01stats["observed-panic"]++
	} else {
		n := len(obs.([]Sx))
		switch {
		case n == 0:
			c01sizes["lines=0"]++
		case n <= 2:
			c01sizes["lines=1-2"]++
		case n <= 10:
			c01sizes["lines=3-10"]++
		default:
			c01sizes["lines>10"]++
		}
	}
	emit(L(Sym("c01"), sxMsgs(msgs, payloadJSON), obs))
}

func replayC01(line string) {
	n := parseSexp(line)
	if n == nil || len(n.Kids) < 2 {
		return
	}
	var msgs []*rwp.InboundMessage
	for _, k := range n.Kids[1].Kids {
		if m := rdMsg(k); m != nil {
			msgs = append(msgs, m)
		}
	}
	emit(L(Sym("c01"), sxMsgs(msgs, payloadJSON), callEnc(msgs)))
}

// ---------------------------------------------------------------- building blocks
func stMsg(sts ...*rwp.HWCState) *rwp.InboundMessage  { return &rwp.InboundMessage{States: sts} }
func one(m *rwp.InboundMessage) []*rwp.InboundMessage { return []*rwp.InboundMessage{m} }

var boundaryU32 = []uint32{0, 1, 2, 3, 4, 7, 8, 15, 16, 31, 32, 63, 64, 84, 85, 86, 127, 128, 169, 170, 171, 254, 255, 256, 4095, 4096, 65535, 65536, 1 << 31, 1<<32 - 1}
var boundaryI32 = []int32{0, 1, -1, 2, 7, 9, 10, 11, 12, 13, 100, -100, 32767, 1<<31 - 1, -1 << 31}

func (r *Rng) U32b() uint32 {
	switch r.Intn(4) {
	case 0:
		return boundaryU32[r.Intn(len(boundaryU32))]
	case 1:
		return uint32(r.Intn(8))
	case 2:
		return uint32(r.Intn(5000))
	}
	return uint32(r.U64())
}
func (r *Rng) I32b() int32 {
	switch r.Intn(4) {
	case 0:
		return boundaryI32[r.Intn(len(boundaryI32))]
	case 1:
		return int32(r.Intn(20))
	case 2:
		return int32(r.Intn(20001)) - 10000
	}
	return int32(r.U64())
}

var textAlphabet = []string{"a", "B", "7", " ", "-", ":", "=", ",", "#", "é", "漢", "\t", "/", "0",
	"%", "%d", "%s", "\\", "\"", "'", "$", "{", "}", "<", ">", "&", "+", "*", "(", ")", "[", "]", "?", "!", "@", "~", "^", "`", ";", ".", "_"}
var nastyAlphabet = []string{"|", "\n", "\r", "\x00", "\xff", "\xc2", "||", " ", " "}

// mostly protocol-clean strings; p(nasty) small
func (r *Rng) Text(maxLen int) string {
	if r.Intn(4) == 0 {
		return ""
	}
	n := 1 + r.Intn(maxLen)
	s := ""
	for i := 0; i < n; i++ {
		if r.Intn(40) == 0 {
			s += nastyAlphabet[r.Intn(len(nastyAlphabet))]
		} else {
			s += textAlphabet[r.Intn(len(textAlphabet))]
		}
	}
	return s
}

func (r *Rng) IDs() []uint32 {
	switch r.Intn(10) {
	case 0:
		return nil
	case 1, 2:
		n := 2 + r.Intn(3)
		ids := make([]uint32, n)
		for i := range ids {
			ids[i] = uint32(1 + r.Intn(40))
		}
		return ids
	case 3:
		return []uint32{r.U32b()}
	}
	return []uint32{uint32(1 + r.Intn(200))}
}

func (r *Rng) RGB() *rwp.ColorRGB {
	grid := []uint32{0, 1, 42, 84, 85, 86, 127, 169, 170, 171, 254, 255, 256, 1000, 1<<32 - 1}
	return &rwp.ColorRGB{Red: grid[r.Intn(len(grid))], Green: grid[r.Intn(len(grid))], Blue: grid[r.Intn(len(grid))]}
}
func (r *Rng) Index() *rwp.ColorIndex {
	if r.Intn(8) == 0 {
		return &rwp.ColorIndex{Index: rwp.ColorIndex_Colors(r.I32b())}
	}
	return &rwp.ColorIndex{Index: rwp.ColorIndex_Colors(r.Intn(32))}
}
func (r *Rng) Color() *rwp.Color {
	switch r.Intn(8) {
	case 0:
		return &rwp.Color{}
	case 1:
		return &rwp.Color{ColorRGB: r.RGB(), ColorIndex: r.Index()}
	case 2, 3, 4:
		return &rwp.Color{ColorRGB: r.RGB()}
	}
	return &rwp.Color{ColorIndex: r.Index()}
}
func (r *Rng) HWCColor() *rwp.HWCColor {
	c := r.Color()
	return &rwp.HWCColor{ColorRGB: c.ColorRGB, ColorIndex: c.ColorIndex}
}
func (r *Rng) Mode() *rwp.HWCMode {
	m := &rwp.HWCMode{State: rwp.HWCMode_StateE(r.Intn(6)), Output: r.Bool(), BlinkPattern: uint32(r.Intn(16))}
	if r.Intn(10) == 0 {
		m.State = rwp.HWCMode_StateE(r.I32b())
	}
	if r.Intn(10) == 0 {
		m.BlinkPattern = r.U32b()
	}
	return m
}
func (r *Rng) Ext() *rwp.HWCExtended {
	x := &rwp.HWCExtended{Interpretation: rwp.HWCExtended_InterpretationE(r.Intn(16)), Value: uint32(r.Intn(4096))}
	if r.Intn(10) == 0 {
		x.Interpretation = rwp.HWCExtended_InterpretationE(r.I32b())
	}
	if r.Intn(10) == 0 {
		x.Value = r.U32b()
	}
	return x
}
func (r *Rng) Font() *rwp.HWCText_TextStyle_Font {
	f := &rwp.HWCText_TextStyle_Font{FontFace: rwp.HWCText_TextStyle_Font_FontFaceE(r.Intn(8)), TextHeight: uint32(r.Intn(4)), TextWidth: uint32(r.Intn(4))}
	if r.Intn(12) == 0 {
		f.FontFace = rwp.HWCText_TextStyle_Font_FontFaceE(r.I32b())
		f.TextHeight = r.U32b()
		f.TextWidth = r.U32b()
	}
	return f
}

// a text sub-message; each optional part present with probability p/8
func (r *Rng) TextMsg(p int) *rwp.HWCText {
	t := &rwp.HWCText{}
	has := func() bool { return r.Intn(8) < p }
	if has() {
		t.IntegerValue = r.I32b()
	}
	if has() {
		t.Formatting = rwp.HWCText_FormattingE(r.Intn(14))
		if r.Intn(16) == 0 {
			t.Formatting = rwp.HWCText_FormattingE(r.I32b())
		}
	}
	if has() {
		t.StateIcon = rwp.HWCText_StateIconE(r.Intn(4))
	}
	if has() {
		t.ModifierIcon = rwp.HWCText_ModifierIconE(r.Intn(8))
	}
	if r.Intn(30) == 0 {
		t.StateIcon = rwp.HWCText_StateIconE(r.I32b())
		t.ModifierIcon = rwp.HWCText_ModifierIconE(r.I32b())
	}
	if has() {
		t.Title = r.Text(6)
	}
	if has() {
		t.SolidHeaderBar = true
	}
	if has() {
		t.Textline1 = r.Text(6)
	}
	if has() {
		t.Textline2 = r.Text(6)
	}
	if has() {
		t.IntegerValue2 = r.I32b()
	}
	if has() {
		t.PairMode = rwp.HWCText_PairModeE(r.Intn(5))
		if r.Intn(16) == 0 {
			t.PairMode = rwp.HWCText_PairModeE(r.I32b())
		}
	}
	if has() {
		t.Scale = &rwp.HWCText_ScaleM{ScaleType: rwp.HWCText_ScaleM_ScaleTypeE(r.Intn(4)), RangeLow: r.I32b(), RangeHigh: r.I32b(), LimitLow: r.I32b(), LimitHigh: r.I32b()}
		if r.Intn(16) == 0 {
			t.Scale.ScaleType = rwp.HWCText_ScaleM_ScaleTypeE(r.I32b())
		}
	}
	if has() {
		s := &rwp.HWCText_TextStyle{}
		if r.Bool() {
			s.TitleFont = r.Font()
		}
		if r.Bool() {
			s.TextFont = r.Font()
		}
		s.FixedWidth = r.Intn(3) == 0
		if r.Bool() {
			s.TitleBarPadding = uint32(r.Intn(4))
		}
		if r.Bool() {
			s.ExtraCharacterSpacing = uint32(r.Intn(8))
		}
		if r.Bool() {
			s.UnformattedFontSize = uint32(r.Intn(5))
		}
		if r.Intn(16) == 0 {
			s.TitleBarPadding, s.ExtraCharacterSpacing, s.UnformattedFontSize = r.U32b(), r.U32b(), r.U32b()
		}
		t.TextStyling = s
	}
	if has() {
		t.Inverted = true
	}
	if has() {
		t.PixelColor = r.Color()
	}
	if has() {
		t.BackgroundColor = r.Color()
	}
	return t
}

func (r *Rng) Gfx(n int) *rwp.HWCGfx {
	g := &rwp.HWCGfx{ImageType: rwp.HWCGfx_ImageTypeE(r.Intn(3)), W: uint32(1 + r.Intn(128)), H: uint32(1 + r.Intn(64)), ImageData: r.Bytes(n)}
	if r.Bool() {
		g.XYoffset = true
		g.X, g.Y = uint32(r.Pick([]int{0, 0, 1, 17, 99})), uint32(r.Pick([]int{0, 0, 3, 31, 99}))
	} else if r.Intn(4) == 0 {
		g.X, g.Y = uint32(r.Intn(100)), uint32(r.Intn(100))
	}
	if r.Intn(20) == 0 {
		g.ImageType = rwp.HWCGfx_ImageTypeE(r.I32b())
		g.W, g.H = r.U32b(), r.U32b()
	}
	switch r.Intn(8) { // content classes: zero tail (one or several whole lines), all zero, zero head, all 0xFF
	case 0:
		for i := n / 3; i < n; i++ {
			g.ImageData[i] = 0
		}
	case 1:
		for i := range g.ImageData {
			g.ImageData[i] = 0
		}
	case 2:
		for i := 0; i < n-n/4; i++ {
			g.ImageData[i] = 0
		}
	case 3:
		for i := range g.ImageData {
			g.ImageData[i] = 0xFF
		}
	}
	return g
}

func (r *Rng) State() *rwp.HWCState {
	s := &rwp.HWCState{HWCIDs: r.IDs()}
	if r.Intn(3) == 0 {
		s.HWCMode = r.Mode()
	}
	if r.Intn(3) == 0 {
		s.HWCColor = r.HWCColor()
	}
	if r.Intn(3) == 0 {
		s.HWCExtended = r.Ext()
	}
	if r.Intn(3) == 0 {
		s.HWCText = r.TextMsg(1 + r.Intn(6))
	}
	if r.Intn(6) == 0 {
		s.HWCGfx = r.Gfx(r.Pick([]int{0, 1, 5, 169, 170, 171, 340, 341, 400}))
	}
	if r.Intn(6) == 0 {
		s.PublishRawADCValues = &rwp.PublishRawADCValues{Enabled: r.Bool()}
	}
	if r.Intn(40) == 0 {
		s.Processors = &rwp.Processors{}
	}
	return s
}

const nCmdFields = 29

// sets command field k (0-15 flags, 16-28 sub-messages) with argument a
func setCmdField(c *rwp.Command, k int, a uint32, r *Rng) {
	switch k {
	case 0:
		c.ActivatePanel = true
	case 1:
		c.SendPanelInfo = true
	case 2:
		c.ReportHWCavailability = true
	case 3:
		c.SendPanelTopology = true
	case 4:
		c.SendBurninProfile = true
	case 5:
		c.SendCalibrationProfile = true
	case 6:
		c.SendNetworkConfig = true
	case 7:
		c.SendRegisters = true
	case 8:
		c.GetConnections = true
	case 9:
		c.GetRunTimeStats = true
	case 10:
		c.ClearAll = true
	case 11:
		c.ClearLEDs = true
	case 12:
		c.ClearDisplays = true
	case 13:
		c.GetSleepTimeout = true
	case 14:
		c.WakeUp = true
	case 15:
		c.Reboot = true
	case 16:
		c.PanelBrightness = &rwp.Brightness{LEDs: a, OLEDs: a / 2}
	case 17:
		js := []string{"{}", "{\"a\":1}", " {\"a\": [1,\n 2]}\n", "", "x", "{\n\t\"k\": \"v w\"\r\n}", " {} "}
		c.SetCalibrationProfile = &rwp.CalibrationProfile{Json: js[int(a)%len(js)]}
	case 18:
		c.SetNetworkConfig = &rwp.NetworkConfig{Dhcp: a&1 == 1, Address: fmt.Sprintf("10.0.%d.%d", a&255, (a>>8)&255), Netmask: "255.255.255.0"}
		if a&2 == 2 {
			c.SetNetworkConfig = &rwp.NetworkConfig{}
		}
	case 19:
		c.SimulateEnvironmentalHealth = &rwp.Environment{RunMode: rwp.Environment_RunModeE(int32(a))}
	case 20:
		c.SetSleepTimeout = &rwp.SleepTimeout{Value: a}
	case 21:
		c.SetSleepMode = &rwp.SleepMode{Mode: rwp.SleepMode_SlpMode(int32(a))}
	case 22:
		c.SetSleepScreenSaver = &rwp.SleepScreenSaver{Type: rwp.SleepScreenSaver_SlpScrSaver(int32(a))}
	case 23:
		c.SetDimmedGain = &rwp.DimmedGain{Value: a}
	case 24:
		c.SetHeartBeatTimer = &rwp.HeartBeatTimer{Value: a}
	case 25:
		c.PublishSystemStat = &rwp.PublishSystemStat{PeriodSec: a}
	case 26:
		c.LoadCPU = &rwp.LoadCPU{Level: rwp.LoadCPU_LevelE(int32(a))}
	case 27:
		c.SetWebserverEnabled = &rwp.WebserverState{Enabled: a&1 == 1}
	case 28:
		c.JSONconfig = &rwp.JSONconfig{Outbound: a&1 == 1}
	}
}

func (r *Rng) Cmd() *rwp.Command {
	c := &rwp.Command{}
	n := r.Pick([]int{0, 1, 1, 1, 2, 3, 6})
	for i := 0; i < n; i++ {
		setCmdField(c, r.Intn(nCmdFields), r.U32b(), r)
	}
	return c
}

func (r *Rng) RegID() string {
	al := "ABCXYZ0123456789"
	if r.Intn(12) == 0 {
		return r.Text(3)
	}
	n := r.Intn(4)
	s := ""
	for i := 0; i < n; i++ {
		s += string(al[r.Intn(len(al))])
	}
	return s
}
func (r *Rng) Reg() *rwp.Register {
	reg := &rwp.Register{Reg: rwp.Register_RegisterE(r.Intn(4)), Id: r.RegID(), Value: r.U32b()}
	if reg.Reg == rwp.Register_FLAG && r.Intn(4) != 0 {
		reg.Id = fmt.Sprint(r.Intn(70))
	}
	if r.Intn(20) == 0 {
		reg.Reg = rwp.Register_RegisterE(r.I32b())
	}
	return reg
}

func (r *Rng) Msg() *rwp.InboundMessage {
	m := &rwp.InboundMessage{}
	if r.Intn(4) == 0 {
		m.FlowMessage = rwp.InboundMessage_FlowMsg(r.Intn(4))
		if r.Intn(10) == 0 {
			m.FlowMessage = rwp.InboundMessage_FlowMsg(r.I32b())
		}
	}
	if r.Intn(3) == 0 {
		m.Command = r.Cmd()
	}
	ns := r.Pick([]int{0, 1, 1, 1, 2, 3})
	for i := 0; i < ns; i++ {
		m.States = append(m.States, r.State())
	}
	nr := r.Pick([]int{0, 0, 0, 1, 2})
	for i := 0; i < nr; i++ {
		m.Registers = append(m.Registers, r.Reg())
	}
	return m
}

// ---------------------------------------------------------------- wire-level generators (C06)
// round trip through the wire: what a receiver of protobuf bytes holds
func viaWire(m *rwp.InboundMessage) *rwp.InboundMessage {
	b, err := proto.Marshal(m)
	if err != nil {
		return nil
	}
	o := &rwp.InboundMessage{}
	if proto.Unmarshal(b, o) != nil {
		return nil
	}
	return o
}

func mutateWire(b []byte, r *Rng) []byte {
	c := append([]byte{}, b...)
	n := 1 + r.Intn(3)
	for i := 0; i < n && len(c) > 0; i++ {
		p := r.Intn(len(c))
		switch r.Intn(5) {
		case 0:
			c[p] ^= 1 << uint(r.Intn(8))
		case 1:
			c[p] = byte(r.U64())
		case 2:
			c = append(c[:p], c[p+1:]...)
		case 3:
			c = append(c[:p], append([]byte{byte(r.U64())}, c[p:]...)...)
		case 4:
			c = c[:p]
		}
	}
	return c
}

// text with the presence pattern `mask` of its 9 optional sub-messages
func textPattern(mask int, format int32) *rwp.HWCText {
	t := &rwp.HWCText{Formatting: rwp.HWCText_FormattingE(format), IntegerValue: 3, Title: "T"}
	if mask&1 != 0 {
		t.Scale = &rwp.HWCText_ScaleM{ScaleType: 1, RangeHigh: 10}
	}
	if mask&2 != 0 {
		t.TextStyling = &rwp.HWCText_TextStyle{UnformattedFontSize: 2}
		if mask&4 != 0 {
			t.TextStyling.TitleFont = &rwp.HWCText_TextStyle_Font{FontFace: 1}
		}
		if mask&8 != 0 {
			t.TextStyling.TextFont = &rwp.HWCText_TextStyle_Font{FontFace: 2, TextWidth: 1}
		}
	}
	if mask&16 != 0 {
		t.PixelColor = &rwp.Color{}
		if mask&32 != 0 {
			t.PixelColor.ColorRGB = &rwp.ColorRGB{Red: 255}
		}
		if mask&64 != 0 {
			t.PixelColor.ColorIndex = &rwp.ColorIndex{Index: 4}
		}
	}
	if mask&128 != 0 {
		t.BackgroundColor = &rwp.Color{}
		if mask&256 != 0 {
			t.BackgroundColor.ColorRGB = &rwp.ColorRGB{Blue: 255}
		} else {
			t.BackgroundColor.ColorIndex = &rwp.ColorIndex{Index: 9}
		}
	}
	return t
}

func statePattern(mask int) *rwp.HWCState {
	s := &rwp.HWCState{HWCIDs: []uint32{5}}
	if mask&1 != 0 {
		s.HWCMode = &rwp.HWCMode{State: 4}
	}
	if mask&2 != 0 {
		s.HWCColor = &rwp.HWCColor{}
		if mask&128 != 0 {
			s.HWCColor.ColorRGB = &rwp.ColorRGB{Green: 200}
		}
		if mask&256 != 0 {
			s.HWCColor.ColorIndex = &rwp.ColorIndex{Index: 7}
		}
	}
	if mask&4 != 0 {
		s.HWCExtended = &rwp.HWCExtended{Interpretation: 5, Value: 500}
	}
	if mask&8 != 0 {
		s.HWCText = &rwp.HWCText{}
		if mask&512 != 0 {
			s.HWCText.Textline1 = "x"
		}
	}
	if mask&16 != 0 {
		s.HWCGfx = &rwp.HWCGfx{}
		if mask&1024 != 0 {
			s.HWCGfx.W, s.HWCGfx.H, s.HWCGfx.ImageData = 8, 2, []byte{1, 2}
		}
	}
	if mask&32 != 0 {
		s.PublishRawADCValues = &rwp.PublishRawADCValues{}
	}
	if mask&64 != 0 {
		s.Processors = &rwp.Processors{}
	}
	return s
}

// ---------------------------------------------------------------- generator
func genC01(tier string, rng *Rng) {
	thorough := tier == "thorough"
	scale := 1
	if thorough {
		scale = 20
	}

	// (i) packed integers, exhaustive: modes (incl. states 6,7 and blink 16), ext, colours
	for st := 0; st < 8; st++ {
		for out := 0; out < 2; out++ {
			var sts []*rwp.HWCState
			for bl := 0; bl <= 16; bl++ {
				sts = append(sts, &rwp.HWCState{HWCIDs: []uint32{uint32(1 + bl)}, HWCMode: &rwp.HWCMode{State: rwp.HWCMode_StateE(st), Output: out == 1, BlinkPattern: uint32(bl)}})
			}
			runC01("mode-sweep", one(stMsg(sts...)))
		}
	}
	for in := 0; in < 16; in++ {
		step := 64
		for v0 := 0; v0 < 4096; v0 += step {
			var sts []*rwp.HWCState
			for v := v0; v < v0+step; v++ {
				sts = append(sts, &rwp.HWCState{HWCIDs: []uint32{uint32(v % 50)}, HWCExtended: &rwp.HWCExtended{Interpretation: rwp.HWCExtended_InterpretationE(in), Value: uint32(v)}})
			}
			runC01("ext-sweep", one(stMsg(sts...)))
		}
	}
	for _, v := range []uint32{4096, 4097, 8191, 1 << 16, 1<<32 - 1} {
		for _, in := range []int32{16, 17, -1, 1<<31 - 1, -1 << 31} {
			runC01("ext-out-of-range", one(stMsg(&rwp.HWCState{HWCIDs: []uint32{1}, HWCExtended: &rwp.HWCExtended{Interpretation: rwp.HWCExtended_InterpretationE(in), Value: v}})))
		}
	}
	{
		var sts []*rwp.HWCState
		for ix := -2; ix < 70; ix++ {
			sts = append(sts, &rwp.HWCState{HWCIDs: []uint32{uint32(ix + 3)}, HWCColor: &rwp.HWCColor{ColorIndex: &rwp.ColorIndex{Index: rwp.ColorIndex_Colors(ix)}}})
		}
		runC01("colour-index-sweep", one(stMsg(sts...)))
	}
	grid := []uint32{0, 1, 84, 85, 86, 169, 170, 171, 254, 255, 256, 1 << 31, 1<<32 - 1}
	for _, rr := range grid {
		for _, gg := range grid {
			var sts []*rwp.HWCState
			for _, bb := range grid {
				sts = append(sts, &rwp.HWCState{HWCIDs: []uint32{9}, HWCColor: &rwp.HWCColor{ColorRGB: &rwp.ColorRGB{Red: rr, Green: gg, Blue: bb}}})
			}
			runC01("colour-rgb-grid", one(stMsg(sts...)))
		}
	}
	for c := uint32(0); c < 300; c++ { // every channel value around the quantisation steps
		runC01("colour-rgb-channel", one(stMsg(&rwp.HWCState{HWCIDs: []uint32{2}, HWCColor: &rwp.HWCColor{ColorRGB: &rwp.ColorRGB{Red: c, Green: 299 - c, Blue: c / 2}}},
			&rwp.HWCState{HWCIDs: []uint32{3}, HWCText: &rwp.HWCText{Textline1: "c", PixelColor: &rwp.Color{ColorRGB: &rwp.ColorRGB{Red: c, Green: c, Blue: 299 - c}}}})))
	}

	// (ii) text: every single field, every pair of fields, formats x styling presence
	fieldSet := func(t *rwp.HWCText, k int, variant int) {
		switch k {
		case 0:
			t.IntegerValue = []int32{5, -5, 1<<31 - 1, -1 << 31}[variant%4]
		case 1:
			t.Formatting = rwp.HWCText_FormattingE([]int32{1, 7, 10, 11, 12, 13, 2, 9}[variant%8])
		case 2:
			t.StateIcon = rwp.HWCText_StateIconE(1 + variant%3)
		case 3:
			t.ModifierIcon = rwp.HWCText_ModifierIconE(1 + variant%7)
		case 4:
			t.Title = []string{"Title", "é", "a b", "="}[variant%4]
		case 5:
			t.SolidHeaderBar = true
		case 6:
			t.Textline1 = []string{"L1", "漢", " ", "1"}[variant%4]
		case 7:
			t.Textline2 = []string{"L2", "0", "x y"}[variant%3]
		case 8:
			t.IntegerValue2 = []int32{9, -9, 1<<31 - 1}[variant%3]
		case 9:
			t.PairMode = rwp.HWCText_PairModeE(1 + variant%4)
		case 10:
			t.Scale = &rwp.HWCText_ScaleM{ScaleType: rwp.HWCText_ScaleM_ScaleTypeE(variant % 4), RangeLow: -10, RangeHigh: 10, LimitLow: -5, LimitHigh: int32(variant)}
		case 11:
			t.TextStyling = &rwp.HWCText_TextStyle{TextFont: &rwp.HWCText_TextStyle_Font{FontFace: rwp.HWCText_TextStyle_Font_FontFaceE(variant % 8), TextWidth: uint32(variant % 4), TextHeight: uint32((variant / 4) % 4)}}
		case 12:
			t.TextStyling = &rwp.HWCText_TextStyle{TitleFont: &rwp.HWCText_TextStyle_Font{FontFace: rwp.HWCText_TextStyle_Font_FontFaceE(variant % 8), TextWidth: uint32(variant % 4), TextHeight: uint32((variant / 4) % 4)}}
		case 13:
			if t.TextStyling == nil {
				t.TextStyling = &rwp.HWCText_TextStyle{}
			}
			t.TextStyling.FixedWidth = true
		case 14:
			if t.TextStyling == nil {
				t.TextStyling = &rwp.HWCText_TextStyle{}
			}
			t.TextStyling.TitleBarPadding = uint32(1 + variant%3)
		case 15:
			if t.TextStyling == nil {
				t.TextStyling = &rwp.HWCText_TextStyle{}
			}
			t.TextStyling.ExtraCharacterSpacing = uint32(1 + variant%7)
		case 16:
			if t.TextStyling == nil {
				t.TextStyling = &rwp.HWCText_TextStyle{}
			}
			t.TextStyling.UnformattedFontSize = uint32(1 + variant%4)
		case 17:
			t.Inverted = true
		case 18:
			t.PixelColor = []*rwp.Color{{ColorIndex: &rwp.ColorIndex{Index: 3}}, {ColorRGB: &rwp.ColorRGB{Red: 255, Green: 128}}, {}, {ColorIndex: &rwp.ColorIndex{Index: 0}}}[variant%4]
		case 19:
			t.BackgroundColor = []*rwp.Color{{ColorIndex: &rwp.ColorIndex{Index: 31}}, {ColorRGB: &rwp.ColorRGB{Blue: 90}}, {}, {ColorIndex: &rwp.ColorIndex{Index: 0}}}[variant%4]
		}
	}
	const nTextFields = 20
	for k := 0; k < nTextFields; k++ {
		for v := 0; v < 8; v++ {
			t := &rwp.HWCText{}
			fieldSet(t, k, v)
			runC01("text-single-field", one(stMsg(&rwp.HWCState{HWCIDs: []uint32{uint32(10 + k)}, HWCText: t})))
		}
	}
	for k := 0; k < nTextFields; k++ {
		for j := k + 1; j < nTextFields; j++ {
			for v := 0; v < 2*scale && v < 16; v++ {
				t := &rwp.HWCText{}
				fieldSet(t, k, v)
				fieldSet(t, j, v/2+k)
				runC01("text-field-pair", one(stMsg(&rwp.HWCState{HWCIDs: []uint32{7}, HWCText: t})))
			}
		}
	}
	for f := int32(-1); f <= 14; f++ {
		for mask := 0; mask < 512; mask++ {
			if !thorough && mask%8 != int(f+1)%8 && mask > 64 {
				continue
			}
			t := textPattern(mask, f)
			m := viaWire(stMsg(&rwp.HWCState{HWCIDs: []uint32{1}, HWCText: t}))
			runC01("text-presence-pattern", one(m))
		}
	}
	for i := 0; i < 3000*scale; i++ {
		t := rng.TextMsg(1 + rng.Intn(8))
		runC01("text-random", one(stMsg(&rwp.HWCState{HWCIDs: rng.IDs(), HWCText: t})))
	}

	// (iii) images: every length in a window, every residue mod 170, around multiples
	maxLen := 520
	if thorough {
		maxLen = 1400
	}
	for n := 0; n <= maxLen; n++ {
		g := rng.Gfx(n)
		g.ImageType = rwp.HWCGfx_ImageTypeE(n % 3)
		ids := []uint32{uint32(1 + n%7)}
		if n%5 == 0 {
			ids = append(ids, 40, 41)
		}
		runC01("gfx-length-sweep", one(stMsg(&rwp.HWCState{HWCIDs: ids, HWCGfx: g})))
	}
	// offset flag x offset values (0 is a legal offset: top-left corner) x format x lengths around 170
	for _, xy := range []bool{false, true} {
		for _, x := range []uint32{0, 1, 37, 1<<32 - 1} {
			for _, y := range []uint32{0, 2, 63, 1 << 31} {
				for ty := 0; ty < 3; ty++ {
					for _, n := range []int{1, 169, 170, 171, 341} {
						if (ty+n+int(x%7))%3 != 0 && !thorough && n != 1 {
							continue
						}
						g := &rwp.HWCGfx{ImageType: rwp.HWCGfx_ImageTypeE(ty), W: 64, H: 32, XYoffset: xy, X: x, Y: y, ImageData: rng.Bytes(n)}
						runC01("gfx-offset-grid", one(stMsg(&rwp.HWCState{HWCIDs: []uint32{11}, HWCGfx: g})))
					}
				}
			}
		}
	}
	for _, k := range []int{5, 6, 7, 10, 20, 35} {
		for d := -1; d <= 1; d++ {
			runC01("gfx-multiple", one(stMsg(&rwp.HWCState{HWCIDs: []uint32{1}, HWCGfx: rng.Gfx(170*k + d)})))
		}
	}

	// (iv) commands: every field alone with boundary arguments, every pair
	args := []uint32{0, 1, 2, 3, 4, 100, 1 << 31, 1<<32 - 1}
	for k := 0; k < nCmdFields; k++ {
		for _, a := range args {
			c := &rwp.Command{}
			setCmdField(c, k, a, rng)
			runC01("command-single", one(&rwp.InboundMessage{Command: c}))
			if k < 16 {
				break
			}
		}
	}
	for k := 0; k < nCmdFields; k++ {
		for j := k + 1; j < nCmdFields; j++ {
			c := &rwp.Command{}
			setCmdField(c, k, uint32(k), rng)
			setCmdField(c, j, uint32(j), rng)
			runC01("command-pair", one(viaWire(&rwp.InboundMessage{Command: c})))
		}
	}
	runC01("command-empty", one(&rwp.InboundMessage{Command: &rwp.Command{}}))
	for f := int32(-1); f <= 5; f++ {
		runC01("flow", one(&rwp.InboundMessage{FlowMessage: rwp.InboundMessage_FlowMsg(f)}))
	}
	for kind := int32(-1); kind <= 5; kind++ {
		for _, id := range []string{"", "A", "A1", "7", "007", "12", "ABC123", "a", "#", "Z9"} {
			for _, v := range []uint32{0, 1, 2, 1<<32 - 1} {
				runC01("register", one(&rwp.InboundMessage{Registers: []*rwp.Register{{Reg: rwp.Register_RegisterE(kind), Id: id, Value: v}}}))
			}
		}
	}

	// state presence patterns (C06), through the wire
	for mask := 0; mask < 2048; mask++ {
		if !thorough && mask >= 128 && mask%3 != 0 {
			continue
		}
		runC01("state-presence-pattern", one(viaWire(stMsg(statePattern(mask)))))
	}
	runC01("empty-call", nil)
	runC01("empty-message", one(&rwp.InboundMessage{}))
	// nil elements of repeated fields (not wire-reachable; encoding/json can produce them)
	runC01("nil-state-element", one(&rwp.InboundMessage{States: []*rwp.HWCState{nil}}))
	runC01("nil-register-element", one(&rwp.InboundMessage{Registers: []*rwp.Register{{Reg: 0, Id: "A", Value: 1}, nil}}))

	// (iii-b) SEVERAL different images in one call: in one message (two or three state records, each with
	// its own image of another length / format / offset / size), in successive messages, with shared and
	// distinct targets (seed C05-9: encoded parts cached per message and reused for the next image)
	for i := 0; i < 60*scale; i++ {
		lens := [][]int{{256, 400}, {400, 256}, {1, 171}, {170, 170}, {341, 5, 341}, {5, 600, 7}}[i%6]
		var sts []*rwp.HWCState
		for k, n := range lens {
			g := rng.Gfx(n)
			g.ImageType = rwp.HWCGfx_ImageTypeE((i + k) % 3)
			g.W, g.H = uint32(8+8*((i+k)%5)), uint32(4+k)
			g.XYoffset = (i+k)%2 == 0
			ids := []uint32{uint32(20 + k)}
			if (i+k)%4 == 3 {
				ids = []uint32{uint32(20 + k), 20}
			}
			sts = append(sts, &rwp.HWCState{HWCIDs: ids, HWCGfx: g})
		}
		runC01("gfx-several-in-one-message", one(stMsg(sts...)))
		var ms []*rwp.InboundMessage
		for _, st := range sts {
			ms = append(ms, stMsg(st))
		}
		runC01("gfx-several-messages", ms)
	}
	// (iv-b) submission order WITHIN one call: the same component written two or three times (same
	// kind of state, or different kinds) with a clearing command / another command / a register /
	// a write to another component / nothing in between, in one message and spread over several
	// (seed C01-6: lines for one target coalesced in place - only visible around a Clear)
	{
		kindOf := func(k int, v int) *rwp.HWCState {
			st := &rwp.HWCState{}
			switch k {
			case 0:
				st.HWCMode = &rwp.HWCMode{State: rwp.HWCMode_StateE(v%5 + 1), BlinkPattern: uint32(v % 3)}
			case 1:
				st.HWCColor = &rwp.HWCColor{ColorIndex: &rwp.ColorIndex{Index: rwp.ColorIndex_Colors(v%17 + 1)}}
			case 2:
				st.HWCExtended = &rwp.HWCExtended{Interpretation: rwp.HWCExtended_InterpretationE(v%4 + 1), Value: uint32(100*v + 7)}
			case 3:
				st.HWCText = &rwp.HWCText{Title: fmt.Sprintf("T%d", v), Formatting: 7, Textline1: fmt.Sprintf("L%d", v)}
			case 4:
				st.HWCGfx = rng.Gfx(3 + v)
			default:
				st.PublishRawADCValues = &rwp.PublishRawADCValues{Enabled: v%2 == 0}
			}
			return st
		}
		between := func(b int) []*rwp.InboundMessage {
			switch b {
			case 0:
				return one(&rwp.InboundMessage{Command: &rwp.Command{ClearAll: true}})
			case 1:
				return one(&rwp.InboundMessage{Command: &rwp.Command{ClearLEDs: true}})
			case 2:
				return one(&rwp.InboundMessage{Command: &rwp.Command{ClearDisplays: true}})
			case 3:
				return one(&rwp.InboundMessage{Command: &rwp.Command{SendPanelInfo: true}})
			case 4:
				return one(&rwp.InboundMessage{Registers: []*rwp.Register{{Reg: 0, Id: "A", Value: 5}}})
			case 5:
				return one(stMsg(&rwp.HWCState{HWCIDs: []uint32{99}, HWCMode: &rwp.HWCMode{State: 2}}))
			case 6:
				return one(&rwp.InboundMessage{FlowMessage: rwp.InboundMessage_PING})
			}
			return nil
		}
		for k1 := 0; k1 < 6; k1++ {
			for k2 := 0; k2 < 6; k2++ {
				for b := 0; b < 8; b++ {
					if scale == 1 && k1 != k2 && b > 2 && (k1+k2+b)%3 != 0 {
						continue
					}
					a, c := kindOf(k1, 1), kindOf(k2, 2)
					a.HWCIDs, c.HWCIDs = []uint32{12}, []uint32{12}
					if (k1+k2+b)%4 == 1 {
						a.HWCIDs, c.HWCIDs = []uint32{5, 12}, []uint32{12, 6}
					}
					ms := append(one(stMsg(a)), between(b)...)
					ms = append(ms, stMsg(c))
					runC01("rewrite-3msg", ms)
					// three writes, the command after the second
					d := kindOf(k1, 3)
					d.HWCIDs = []uint32{12}
					runC01("rewrite-4msg", append(append(append(one(stMsg(a)), stMsg(c)), between(b)...), stMsg(d)))
					if b == 7 { // both writes in ONE message (two states)
						runC01("rewrite-1msg", one(stMsg(a, c)))
					}
				}
			}
		}
		// the clearing command in the SAME message as the state (commands come first in a message)
		for k1 := 0; k1 < 6; k1++ {
			for b := 0; b < 3; b++ {
				a, c := kindOf(k1, 1), kindOf(k1, 2)
				a.HWCIDs, c.HWCIDs = []uint32{12}, []uint32{12}
				m := between(b)[0]
				m.States = []*rwp.HWCState{c}
				runC01("rewrite-cmd-in-msg", []*rwp.InboundMessage{stMsg(a), m})
			}
		}
	}

	// (iv-c) HISTORIES of calls: one message object encoded, a field edited IN PLACE, encoded again; a fresh
	// near copy (proto.Clone with one field changed): nothing a call produces may depend on earlier calls
	for i := 0; i < 120*scale; i++ {
		m := rng.Msg()
		if len(m.States) == 0 {
			m.States = []*rwp.HWCState{rng.State()}
		}
		st := m.States[0]
		if len(st.HWCIDs) == 0 {
			st.HWCIDs = []uint32{7}
		}
		runC01("history-first", one(m))
		for k := 0; k < 3; k++ {
			switch (i + k) % 5 {
			case 0:
				st.HWCText = &rwp.HWCText{Title: fmt.Sprintf("T%d", 10*i+k), Formatting: 7, Textline1: "L"}
			case 1:
				st.HWCGfx = rng.Gfx(1 + (i*7+k*171)%600)
			case 2:
				st.HWCMode = &rwp.HWCMode{State: rwp.HWCMode_StateE(1 + (i+k)%5)}
			case 3:
				if m.Command == nil {
					m.Command = &rwp.Command{}
				}
				m.Command.SetCalibrationProfile = &rwp.CalibrationProfile{Json: fmt.Sprintf("{\"k\":%d}", 10*i+k)}
			default:
				st.HWCIDs = append(st.HWCIDs, uint32(100+k))
			}
			runC01("history-edited-in-place", one(m))
			c := proto.Clone(m).(*rwp.InboundMessage)
			c.States[0].HWCIDs = append([]uint32{uint32(200 + k)}, c.States[0].HWCIDs...)
			runC01("history-fresh-near-copy", one(c))
		}
	}

	// (v) random whole messages, 1-6 per call
	for i := 0; i < 6000*scale; i++ {
		n := 1 + rng.Intn(6)
		var ms []*rwp.InboundMessage
		for j := 0; j < n; j++ {
			ms = append(ms, rng.Msg())
		}
		runC01("random-messages", ms)
	}
	// through the wire, and with mutated wire bytes
	for i := 0; i < 3000*scale; i++ {
		m := rng.Msg()
		b, err := proto.Marshal(m)
		if err != nil { // invalid UTF-8 in a string field
			c01stats["wire-marshal-refused"]++
			continue
		}
		if i%3 == 0 {
			o := &rwp.InboundMessage{}
			if proto.Unmarshal(b, o) == nil {
				runC01("wire-roundtrip", one(o))
			}
			continue
		}
		o := &rwp.InboundMessage{}
		if err := proto.Unmarshal(mutateWire(b, rng), o); err != nil {
			c01stats["wire-mutant-rejected"]++
			// a partially filled message is still what a careless caller may hold
			runC01("wire-mutant-partial", one(o))
			continue
		}
		runC01("wire-mutant-accepted", one(o))
	}
	for i := 0; i < 300*scale; i++ {
		o := &rwp.InboundMessage{}
		proto.Unmarshal(rng.Bytes(1+rng.Intn(40)), o)
		runC01("wire-random-bytes", one(o))
	}

	meta(map[string]interface{}{"property": "C01", "case_kinds": c01stats, "output_sizes": c01sizes})
}
