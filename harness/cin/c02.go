// C02 (+ inbound decoder half of C06): runs RawPanelASCIIstringsToInboundMessages under
// recover() and prints (c02 (entry ...) obs).
//
//	entry ::= (l #line) | (js #line state) | (jm #line (msg|nil ...)) | (nc #line nil|#cfg)
//
// the extra element is the answer of the encoding/json oracle for that line (computed here
// with the same calls the library makes); obs = panic | (msg|nil ...).
package main

import (
	"encoding/base64"
	"encoding/json"
	"fmt"
	"strings"

	rpl "github.com/SKAARHOJ/rawpanel-lib"
	rwp "github.com/SKAARHOJ/rawpanel-lib/ibeam_rawpanel"
)

func init() {
	props["C02"] = genC02
	replays["C02"] = replayC02
}

var c02stats = map[string]int{}
var c02sizes = map[string]int{}

func callDec(lines []string) (obs Sx) {
	defer func() {
		if r := recover(); r != nil {
			obs = Sym("panic")
		}
	}()
	dbgTick()
	return sxMsgs(rpl.RawPanelASCIIstringsToInboundMessages(lines), payloadProto)
}

const ncPrefix = "SetNetworkConfig="

func lineEntry(l string) Sx {
	switch {
	case len(l) > 0 && l[0] == '{':
		st := &rwp.HWCState{}
		json.Unmarshal([]byte(l), st)
		return L(Sym("js"), l, sxState(st, payloadProto))
	case len(l) > 0 && l[0] == '[':
		ms := []*rwp.InboundMessage{}
		json.Unmarshal([]byte(l), &ms)
		return L(Sym("jm"), l, sxMsgs(ms, payloadProto))
	case strings.HasPrefix(l, ncPrefix):
		nc := &rwp.NetworkConfig{}
		if err := json.Unmarshal([]byte(l[len(ncPrefix):]), nc); err != nil {
			return L(Sym("nc"), l, sNil)
		}
		return L(Sym("nc"), l, detMarshal(nc))
	}
	return L(Sym("l"), l)
}

// Results of earlier calls are kept and printed AGAIN after later calls: a decoder that hands out
// shared or cached sub-objects (a template message reused across calls, a scratch slice aliased by a
// returned message) changes what an earlier caller holds.  When the second print of an earlier result
// differs from the first, the earlier case is emitted once more with what the caller now sees - the
// model and the oracle then judge THAT against the lines of the earlier call.
type c02held struct {
	ents  []Sx
	msgs  []*rwp.InboundMessage
	first string
}

var c02ring []c02held

func sxStr(v Sx) string {
	var b strings.Builder
	sx(&b, v)
	return b.String()
}

func emitC02(lines []string) Sx {
	ents := []Sx{}
	for _, l := range lines {
		ents = append(ents, lineEntry(l))
	}
	var msgs []*rwp.InboundMessage
	var obs Sx
	func() {
		defer func() {
			if r := recover(); r != nil {
				obs = Sym("panic")
			}
		}()
		dbgTick()
		msgs = rpl.RawPanelASCIIstringsToInboundMessages(lines)
		obs = sxMsgs(msgs, payloadProto)
	}()
	emit(L(Sym("c02"), ents, obs))
	for i := range c02ring {
		h := &c02ring[i]
		var again Sx
		func() {
			defer func() {
				if r := recover(); r != nil {
					again = Sym("panic")
				}
			}()
			again = sxMsgs(h.msgs, payloadProto)
		}()
		if s := sxStr(again); s != h.first {
			c02stats["earlier-result-altered"]++
			emit(L(Sym("c02"), h.ents, again))
			h.first = s
		}
	}
	if msgs != nil && len(lines) < 50 {
		c02ring = append(c02ring, c02held{ents, msgs, sxStr(obs)})
		if len(c02ring) > 4 {
			c02ring = c02ring[1:]
		}
	}
	return obs
}

func runC02(kind string, lines []string) {
	obs := emitC02(lines)
	c02stats[kind]++
	if s, ok := obs.(Sym); ok && s == "panic" {
		c02stats["observed-panic"]++
	} else {
		n := len(obs.([]Sx))
		switch {
		case n == 0:
			c02sizes["msgs=0"]++
		case n == 1:
			c02sizes["msgs=1"]++
		case n <= 10:
			c02sizes["msgs=2-10"]++
		default:
			c02sizes["msgs>10"]++
		}
	}
}

func replayC02(line string) {
	n := parseSexp(line)
	if n == nil || len(n.Kids) < 2 {
		return
	}
	var lines []string
	for _, k := range n.Kids[1].Kids {
		if len(k.Kids) >= 2 {
			lines = append(lines, string(k.Kids[1].Bytes()))
		}
	}
	emitC02(lines)
}

// ---------------------------------------------------------------- line material
var stateKeywords = []string{"HWC#", "HWCx#", "HWCc#", "HWCt#", "HWCrawADCValues#"}
var bareKeywords = []string{"ping", "ack", "nack", "ActivePanel=1", "list", "map", "PanelTopology?", "BurninProfile?",
	"CalibrationProfile?", "NetworkConfig?", "Registers?", "Connections?", "RunTimeStats?", "Clear", "ClearLEDs",
	"ClearDisplays", "SleepTimer?", "WakeUp!", "Reboot"}
var numKeywords = []string{"HeartBeatTimer", "DimmedGain", "PublishSystemStat", "LoadCPU", "SleepTimer", "SleepMode",
	"SleepScreenSaver", "Webserver", "JSONonOutbound", "PanelBrightness"}
var strKeywords = []string{"SetCalibrationProfile", "SimulateEnvironmentalHealth", "SetNetworkConfig"}
var regKeywords = []string{"Flag#", "Mem", "Shift", "State"}
var numArgs = []string{"", "0", "1", "2", "7", "007", "010", "09", "0600", "012", "00", "0010", "08", "0x10", "0X1f", "0b1", "0o7", "1_0", "0_1", "+010", "-010", " 010", "010 ", "1e2", "255", "2147483647", "2147483648", "4294967295", "4294967296",
	"9223372036854775807", "9223372036854775808", "18446744073709551616", "99999999999999999999999", "-1", "+1", "1,2", "1,2,3", "1,", ",1", "1.5", "a", " 1", "1 "}
var idLists = []string{"1", "12", "1,2,3", "40,41", ",", "1,,2", ",1", "1,", "007", "010", "09,010", "0x10", "1_0", "0", "4294967295", "4294967296", "99999999999999999999", "", "a", "1 2", "-1"}

// a full 21-field text line in its canonical spelling, plus per-field variant tables
var textFull = []string{"123", "1", "9", "Title", "1", "Lab1", "Lab2", "45", "2", "1", "-10", "10", "-5", "5", "", "83", "27", "13", "1", "68", "3"}
var numVariants = []string{"", "0", "1", "3", "4", "7", "8", "10", "11", "12", "13", "63", "64", "65", "127", "128", "255", "256", "-1", "2147483647", "2147483648", "-2147483648", "4294967295", "4294967306", "x", "1x", "+2", " 1", "007", "010", "09", "0100", "0x1F", "0b11", "0o17", "1_0", "-010"}
var strVariants = []string{"", "a", "Title text", "é漢", "0", " ", "=", ":", "a,b", "#1"}

func isStringField(k int) bool { return k == 3 || k == 5 || k == 6 }

func (r *Rng) TextLineFields() []string {
	n := r.Intn(23)
	fs := make([]string, n)
	for k := 0; k < n; k++ {
		switch {
		case r.Intn(3) == 0:
			fs[k] = ""
		case isStringField(k):
			fs[k] = strVariants[r.Intn(len(strVariants))]
		case r.Intn(3) == 0:
			fs[k] = numVariants[r.Intn(len(numVariants))]
		default:
			if k < len(textFull) && r.Bool() {
				fs[k] = textFull[k]
			} else {
				fs[k] = fmt.Sprint(r.Intn(130))
			}
		}
	}
	return fs
}

func (r *Rng) GrammarLine() string {
	k := r.Intn(12)
	if k == 11 {
		return r.MalformedLine()
	}
	return r.grammarBranch(k)
}

func mutateString(s string, r *Rng) string {
	b := []byte(s)
	if len(b) == 0 {
		return string(r.Bytes(1 + r.Intn(3)))
	}
	p := r.Intn(len(b))
	specials := []byte{'\n', '\r', 0, '=', '#', ',', '|', ':', '/', 'x', ' ', '{', '[', 0xff, 0xc3, '-', '+', '?', '!'}
	switch r.Intn(6) {
	case 0:
		b[p] = specials[r.Intn(len(specials))]
	case 1:
		b = append(b[:p], b[p+1:]...)
	case 2:
		b = append(b[:p], append([]byte{specials[r.Intn(len(specials))]}, b[p:]...)...)
	case 3:
		b[p] ^= 0x20
	case 4:
		b = append(b, specials[r.Intn(len(specials))])
	case 5:
		b = append([]byte{specials[r.Intn(len(specials))]}, b...)
	}
	return string(b)
}

func (r *Rng) MalformedLine() string {
	switch r.Intn(9) {
	case 0:
		return string(r.Bytes(r.Intn(24)))
	case 1:
		all := append(append(append(append([]string{}, stateKeywords...), numKeywords...), strKeywords...), regKeywords...)
		seps := []string{"=", "", ":", "==", " =", "= ", "#", "=\n", "\n=", "=-"}
		return all[r.Intn(len(all))] + idLists[r.Intn(len(idLists))] + seps[r.Intn(len(seps))] + numArgs[r.Intn(len(numArgs))]
	case 2:
		return mutateString(bareKeywords[r.Intn(len(bareKeywords))], r)
	case 3:
		digits := strings.Repeat(fmt.Sprint(r.Intn(10)), 1+r.Intn(60))
		return []string{"HWC#1=", "HWC#", "HeartBeatTimer=", "Mem", "HWCt#1=0|", "Flag#"}[r.Intn(6)] + digits + []string{"", "=1", "=" + digits}[r.Intn(3)]
	case 4:
		return []string{"{", "[", "[null]", "{}", "[]", "[{}]", "[{\"States\":[null]}]", "{\"HWCIDs\":\"x\"}", "{\"HWCIDs\":[1],\"HWCMode\":null}",
			"[null,{\"FlowMessage\":1},null]", "[[[[[[[[[[]]]]]]]]]]", "{\"HWCIDs\":[1,2],\"HWCMode\":{\"State\":4}}", "[{\"Registers\":[null]}]",
			"{\"HWCText\":{\"Formatting\":10}}", "[{\"Command\":{\"SetNetworkConfig\":{\"dhcp\":true}}}]", "[1,2]", "{\"HWCIDs\":[-1]}", "[{\"States\":[{\"HWCIDs\":[3],\"HWCText\":{\"Formatting\":11,\"Title\":\"t\"}}]}]"}[r.Intn(18)]
	case 5:
		return mutateString(r.GrammarLineNoMalformed(), r)
	case 6:
		return mutateString(mutateString(r.GrammarLineNoMalformed(), r), r)
	case 7:
		return []string{"", " ", "\n", "ping\n", " ping", "Ping", "PING", "list ", "HWC#1=5\n", "HWC#1=5\nHWC#2=6", "HWCt#1=a\nb", "SetCalibrationProfile=a\nb", "State=", "State", "Mem=1", "MemA=", "FlagA=1", "Flag#=1", "Flag#A=1", "Flag#12=5", "ShiftZ9=00012", "Statex=1", "StateÉ=1"}[r.Intn(23)]
	}
	return "HWCg" + []string{"", "RGB", "Gray"}[r.Intn(3)] + "#" + idLists[r.Intn(4)] + "=" + fmt.Sprint(r.Intn(3)) + []string{":", "/1,8x8:", "/2,64x32,1,2:", "/", "/1,8x:", ""}[r.Intn(6)] + []string{"QUFB", "", "Q0ND", "!!!", "QQ==", "QUE=", "QUFB\n"}[r.Intn(7)]
}

func (r *Rng) GrammarLineNoMalformed() string { return r.grammarBranch(r.Intn(11)) }
func (r *Rng) grammarBranch(k int) string {
	switch k {
	case 0:
		return bareKeywords[r.Intn(len(bareKeywords))]
	case 1:
		if r.Intn(3) == 0 {
			return numKeywords[r.Intn(len(numKeywords))] + "=" + r.AltDecimal()
		}
		return numKeywords[r.Intn(len(numKeywords))] + "=" + fmt.Sprint(r.U32b())
	case 2:
		if r.Intn(3) == 0 {
			return "PanelBrightness=" + r.AltDecimal() + "," + r.AltDecimal()
		}
		return fmt.Sprintf("PanelBrightness=%d,%d", r.Intn(9), r.Intn(9))
	case 3:
		if r.Intn(4) == 0 {
			return "HWC#" + r.AltDecimal() + "=" + r.AltDecimal()
		}
		return fmt.Sprintf("HWC#%d=%d", 1+r.Intn(99), r.Intn(65536))
	case 4:
		return fmt.Sprintf("HWCc#%d=%d", 1+r.Intn(99), r.Intn(256))
	case 5:
		return fmt.Sprintf("HWCx#%d,%d=%d", 1+r.Intn(99), 1+r.Intn(99), r.Intn(65536))
	case 6, 7:
		return "HWCt#" + idLists[r.Intn(3)] + "=" + strings.Join(r.TextLineFields(), "|")
	case 8:
		return fmt.Sprintf("HWCrawADCValues#%d=%d", r.Intn(50), r.Intn(3))
	case 9:
		k := regKeywords[r.Intn(4)]
		if k == "Flag#" {
			return fmt.Sprintf("Flag#%d=%d", r.Intn(70), r.Intn(3))
		}
		return fmt.Sprintf("%s%s=%d", k, r.RegID(), r.U32b())
	}
	return []string{"SimulateEnvironmentalHealth=Normal", "SimulateEnvironmentalHealth=Safemode", "SimulateEnvironmentalHealth=Blocked",
		"SetCalibrationProfile={\"a\":1}", "SetNetworkConfig={\"dhcp\":true}", "SetNetworkConfig={\"address\":\"10.0.0.9\",\"netmask\":\"255.0.0.0\"}"}[r.Intn(6)]
}

// a decimal numeral in an alternative spelling: leading zeros (which a radix-guessing parser
// would read as octal), or a spelling only such a parser accepts
func (r *Rng) AltDecimal() string {
	v := r.Pick([]int{0, 1, 7, 8, 9, 10, 12, 17, 64, 100, 255, 600, 777, 4096})
	switch r.Intn(8) {
	case 0, 1, 2, 3:
		return strings.Repeat("0", 1+r.Intn(3)) + fmt.Sprint(v)
	case 4:
		return fmt.Sprintf("0x%x", v)
	case 5:
		return fmt.Sprintf("0b%b", v)
	case 6:
		return fmt.Sprintf("0o%o", v)
	}
	return fmt.Sprintf("1_%d", v)
}

// ---------------------------------------------------------------- generator
func genC02(tier string, rng *Rng) {
	thorough := tier == "thorough"
	scale := 1
	if thorough {
		scale = 20
	}
	chunk := func(kind string, lines []string, per int) {
		for i := 0; i < len(lines); i += per {
			j := i + per
			if j > len(lines) {
				j = len(lines)
			}
			runC02(kind, lines[i:j])
		}
	}

	// the complete 16-bit value space of the three packed integers (+ bit 16 and beyond)
	for _, kw := range []string{"HWC#", "HWCx#", "HWCc#"} {
		var ls []string
		for v := 0; v < 65536; v++ {
			ls = append(ls, fmt.Sprintf("%s%d=%d", kw, 1+v%90, v))
		}
		for _, v := range []string{"65536", "65537", "131071", "4294967295", "4294967296", "9223372036854775807", "9223372036854775808", "-1", "-64", "", "x", "1x", "+5", "007", "010", "0377", "09", "0x20", "0b100000", "0o40", "1_00", "00292"} {
			ls = append(ls, kw+"3="+v)
		}
		chunk("packed-sweep "+kw, ls, 128)
	}
	{
		var ls []string
		for _, v := range numArgs {
			ls = append(ls, "HWCrawADCValues#4="+v)
		}
		chunk("adc", ls, 8)
	}

	// id lists
	for _, kw := range stateKeywords {
		for _, ids := range idLists {
			for _, sep := range []string{"=", "", ":", "=="} {
				runC02("id-lists", []string{kw + ids + sep + "5"})
			}
		}
	}

	// text lines: every prefix length of the full line x per-field variants
	for n := 0; n <= 21; n++ {
		runC02("text-prefix", []string{"HWCt#8=" + strings.Join(textFull[:n], "|")})
		runC02("text-prefix", []string{"HWCt#8=" + strings.Join(textFull[:n], "|") + "|"})
	}
	for k := 0; k < 21; k++ {
		vars := numVariants
		if isStringField(k) {
			vars = strVariants
		}
		for _, v := range vars {
			for _, base := range [][]string{textFull, make([]string, 21)} {
				fs := append([]string{}, base...)
				fs[k] = v
				runC02("text-field-variant", []string{"HWCt#1,2=" + strings.Join(fs, "|")})
				runC02("text-field-variant", []string{"HWCt#1=" + strings.Join(fs[:k+1], "|")})
			}
		}
	}
	// format x value/font-size interplay, pair-mode defaults, header bar rules
	for _, f := range []string{"", "0", "1", "7", "10", "11", "12", "13", "4294967306"} {
		for _, v := range []string{"", "0", "3", "-3", "4294967296"} {
			for _, rest := range []string{"", "||T", "||T|1", "||T|0|a|b|5|", "|||||b", "|||||||7", "|||||||0", "|||||||0|3", "||T||||||4"} {
				runC02("text-format-rules", []string{"HWCt#5=" + v + "|" + f + rest})
			}
		}
	}
	for i := 0; i < 4000*scale; i++ {
		runC02("text-random", []string{"HWCt#" + idLists[rng.Intn(3)] + "=" + strings.Join(rng.TextLineFields(), "|")})
	}

	// every keyword x arguments
	for _, kw := range bareKeywords {
		runC02("bare-keyword", []string{kw})
		for _, suffix := range []string{"=1", "?", " ", "=", "\n"} {
			runC02("bare-keyword-suffix", []string{kw + suffix})
		}
	}
	for _, kw := range append(append([]string{}, numKeywords...), "ActivePanel", "Unknown") {
		for _, a := range numArgs {
			runC02("numeric-keyword", []string{kw + "=" + a})
		}
	}
	for _, kw := range strKeywords {
		for _, a := range []string{"", "Normal", "Safemode", "Blocked", "normal", "Normal ", "{}", "{\"dhcp\":true,\"address\":\"1.2.3.4\"}", "{\"a\":[1,2]}", "x=y", "a\nb", "{", "null", "{\"dhcp\":5}"} {
			runC02("string-keyword", []string{kw + "=" + a})
		}
	}
	for _, kw := range regKeywords {
		for _, id := range []string{"", "A", "A1", "7", "007", "12", "ABC123", "a", "#", "Z9", "99999999999999999999", "É"} {
			for _, v := range []string{"0", "1", "2", "4294967295", "4294967296", "", "-1", "x", "010", "09", "0x10", "1_0", "+1"} {
				runC02("register", []string{kw + id + "=" + v})
			}
		}
	}

	// graphics (C05 covers histories in depth): clean transfers, simple format, broken runs
	for _, n := range []int{1, 2, 3, 169, 170, 171, 340, 341, 400} {
		for ty := 0; ty < 3; ty++ {
			g := rng.Gfx(n)
			g.ImageType = rwp.HWCGfx_ImageTypeE(ty)
			lines := rpl.InboundMessagesToRawPanelASCIIstrings(one(stMsg(&rwp.HWCState{HWCIDs: []uint32{4, 5}, HWCGfx: g})))
			runC02("gfx-clean", lines)
			if len(lines) > 2 {
				runC02("gfx-broken", append(append([]string{}, lines[:1]...), lines[2:]...))
				runC02("gfx-interleaved", append(append(append([]string{}, lines[:1]...), "HWC#1=4", "junk"), lines[1:]...))
			}
		}
	}
	// several transfers in ONE call: advanced transfers of 1, 2, 3, 5 parts mixed with simple
	// three-line transfers (which always end at part 2), in both orders, same / other target
	advanced := func(parts int, id uint32, ty int) []string {
		g := &rwp.HWCGfx{ImageType: rwp.HWCGfx_ImageTypeE(ty), W: 48, H: 24, ImageData: rng.Bytes(170*(parts-1) + 1 + rng.Intn(169))}
		if rng.Bool() {
			g.XYoffset, g.X, g.Y = true, uint32(rng.Intn(3)), uint32(rng.Intn(3))
		}
		return rpl.InboundMessagesToRawPanelASCIIstrings(one(stMsg(&rwp.HWCState{HWCIDs: []uint32{id}, HWCGfx: g})))
	}
	simple := func(id uint32, ty int) []string {
		kw := []string{"HWCg", "HWCgRGB", "HWCgGray"}[ty]
		var ls []string
		for k, n := range []int{86, 86, 84} {
			ls = append(ls, fmt.Sprintf("%s#%d=%d:%s", kw, id, k, base64.StdEncoding.EncodeToString(rng.Bytes(n))))
		}
		return ls
	}
	for _, parts := range []int{1, 2, 3, 4, 5, 7} {
		for ty := 0; ty < 3; ty++ {
			for _, sameID := range []bool{true, false} {
				id2 := uint32(6)
				if !sameID {
					id2 = 9
				}
				a, sm := advanced(parts, 6, ty), simple(id2, ty)
				runC02("gfx-advanced-then-simple", append(append([]string{}, a...), sm...))
				runC02("gfx-simple-then-advanced", append(append([]string{}, sm...), a...))
				runC02("gfx-adv-simple-adv", append(append(append([]string{}, a...), sm...), advanced(parts%3+1, id2, (ty+1)%3)...))
				runC02("gfx-simple-simple", append(append(append([]string{"HWC#1=4"}, simple(6, ty)...), "ping"), simple(id2, ty)...))
			}
		}
	}
	// alternative spellings of every number of a graphics line (index, last index, size, offset, ids)
	runC02("gfx-leading-zeros", []string{"HWCg#07=00/01,010x08,010,09:QUFB", "HWCg#07=01:Q0ND"})
	runC02("gfx-leading-zeros", []string{"HWCgRGB#010=0/001,0064x0032:QUFB", "HWCgRGB#010=001:Q0ND"})
	runC02("gfx-leading-zeros", []string{"HWCg#7=0/0x1,8x8:QUFB", "HWCg#7=0x1:Q0ND", "HWCg#7=0/1_0,8x8:QUFB", "HWCg#0b1=0/0,8x8:QUFB"})
	for i := 0; i < 200*scale; i++ {
		a := func() string { return rng.AltDecimal() }
		runC02("alt-decimal-lines", []string{
			"HWC#" + a() + "=" + a(), "HWCc#" + a() + "," + a() + "=" + a(), "HWCx#" + a() + "=" + a(), "HWCrawADCValues#" + a() + "=" + a(),
			"HWCt#" + a() + "=" + a() + "|" + a() + "|" + a() + "|T|" + a() + "|a|b|" + a() + "|" + a() + "|" + a() + "|" + a() + "|" + a() + "|" + a() + "|" + a() + "||" + a() + "|" + a() + "|" + a() + "|" + a() + "|" + a() + "|" + a(),
			numKeywords[rng.Intn(len(numKeywords))] + "=" + a(), "PanelBrightness=" + a(), "PanelBrightness=" + a() + "," + a(),
			"Mem" + "A" + "=" + a(), "Shift=" + a(), "StateZ9=" + a(), "Flag#" + a() + "=" + a(),
			"HWCg#" + a() + "=" + "0/" + a() + "," + a() + "x" + a() + "," + a() + "," + a() + ":QUFB"})
	}
	// line ORDER: the same component written twice (same or different kind of line) with a clearing
	// command / another command / a register / another component / nothing in between
	{
		kinds := [][2]string{{"HWC#12=4", "HWC#12=3"}, {"HWCc#12=133", "HWCc#12=2"}, {"HWCx#12=4196", "HWCx#12=8292"},
			{"HWCt#12=5|1||T1", "HWCt#12=|7||T2|1|L"}, {"HWCrawADCValues#12=1", "HWCrawADCValues#12=0"}, {"HWCg#12=0/0,8x1:qg==", "HWCg#12=0/0,8x1:VQ=="}}
		betw := [][]string{{"Clear"}, {"ClearLEDs"}, {"ClearDisplays"}, {"list"}, {"MemA=5"}, {"HWC#99=2"}, {"ping"}, {}, {"Clear", "ClearLEDs"}, {"junk"}}
		for i, a := range kinds {
			for j, c := range kinds {
				for _, b := range betw {
					lines := append(append([]string{a[0]}, b...), c[1])
					runC02("rewrite-order", lines)
					if i == j {
						runC02("rewrite-order", append(append(append([]string{a[0], a[1]}, b...), a[0]), "HWC#12,13=1"))
					}
				}
			}
		}
	}
	runC02("gfx-simple", []string{"HWCg#7=0:QUFB", "HWCg#7=1:Q0ND", "HWCg#7=2:RERE"})
	runC02("gfx-simple", []string{"HWCg#7=0:QUFB", "HWCg#7=2:Q0ND", "HWCg#7=2:RERE"})
	runC02("gfx-simple", []string{"HWCg#1=0/1,8x8:QUFB", "HWCg#1=1:Q0ND", "HWCg#1=2:RERE", "HWCg#1=1:Q0ND"})

	// JSON lines
	for i := 0; i < 300*scale; i++ {
		st := rng.State()
		j, _ := json.Marshal(st)
		runC02("json-state", []string{string(j)})
	}
	for i := 0; i < 150*scale; i++ {
		var ms []*rwp.InboundMessage
		for k := rng.Intn(3); k >= 0; k-- {
			ms = append(ms, rng.Msg())
		}
		j, _ := json.Marshal(ms)
		lines := []string{string(j)}
		if rng.Intn(4) == 0 {
			lines = []string{"ping", string(j), "[null]", "HWC#1=4"}
		}
		runC02("json-messages", lines)
	}
	// a line that STARTS with a complete JSON value and goes on (two values glued together, a stray bracket,
	// an ASCII tail): not one JSON value, hence not a line of the grammar - no effect (seed C02-10: a
	// streaming decoder takes the first value and ignores the rest)
	for i := 0; i < 60*scale; i++ {
		a, _ := json.Marshal(&rwp.HWCState{HWCIDs: []uint32{uint32(7 + i%3)}, HWCMode: &rwp.HWCMode{State: 4}})
		b, _ := json.Marshal([]*rwp.InboundMessage{{Command: &rwp.Command{Reboot: i%2 == 0, SendPanelInfo: true}}, {FlowMessage: 1}})
		tails := []string{"{\"HWCIDs\":[8]}", "]", "}", ",", " x", "HWC#5=4", "[1]", "null", "\"s\"", "0", " \t", "\r"}
		t := tails[i%len(tails)]
		runC02("json-with-tail", []string{string(a) + t})
		runC02("json-with-tail", []string{string(b) + t, "HWC#1=4"})
		runC02("json-with-tail", []string{"HWC#2=1", string(a) + string(a), string(b) + string(b)})
	}
	runC02("json-null-element", []string{"[null]"})
	runC02("json-null-element", []string{"[null,{\"FlowMessage\":2},null]"})

	// decode what the encoder writes (canonical spellings)
	for i := 0; i < 2500*scale; i++ {
		var ms []*rwp.InboundMessage
		for k := rng.Intn(3); k >= 0; k-- {
			m := rng.Msg()
			for _, s := range m.States {
				s.Processors = nil
			}
			ms = append(ms, m)
		}
		obs := callEnc(ms)
		if ls, ok := obs.([]Sx); ok {
			var lines []string
			for _, l := range ls {
				lines = append(lines, l.(string))
			}
			runC02("encoder-output", lines)
		}
	}

	// mixed sequences: grammar lines with malformed ones interleaved
	for i := 0; i < 5000*scale; i++ {
		n := 1 + rng.Intn(8)
		lines := make([]string, n)
		for k := range lines {
			if rng.Intn(3) == 0 {
				lines[k] = rng.MalformedLine()
			} else {
				lines[k] = rng.GrammarLine()
			}
		}
		runC02("mixed-sequence", lines)
	}
	// the malformed stream on its own
	for i := 0; i < 6000*scale; i++ {
		runC02("malformed", []string{rng.MalformedLine()})
	}
	for _, n := range []int{1 << 10, 1 << 16, 1 << 20} {
		if n > 1<<16 && !thorough {
			continue
		}
		runC02("long-line", []string{strings.Repeat("A", n)})
		runC02("long-line", []string{"HWCt#1=" + strings.Repeat("a|", n/2)})
		runC02("long-line", []string{"HWC#" + strings.Repeat("1,", n/2) + "1=4"})
	}

	meta(map[string]interface{}{"property": "C02", "case_kinds": c02stats, "output_sizes": c02sizes})
}
