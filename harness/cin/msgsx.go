// S-expression image of rwp.InboundMessage shared with coq/theories/Model/MsgIn.v
// (grammar in the comment there).  Absent sub-message = symbol nil.
package main

import (
	"encoding/json"

	rwp "github.com/SKAARHOJ/rawpanel-lib/ibeam_rawpanel"
	"google.golang.org/protobuf/proto"
)

var sNil = Sym("nil")

// how the two opaque payloads are rendered (see Model/MsgIn.v): C01 uses the JSON text the
// encoder itself will produce, C02 uses deterministic protobuf bytes.
type payloadMode int

const (
	payloadJSON payloadMode = iota
	payloadProto
)

func detMarshal(m proto.Message) []byte {
	b, err := proto.MarshalOptions{Deterministic: true}.Marshal(m)
	if err != nil {
		return []byte("!marshal-error")
	}
	return b
}

func sxRGB(c *rwp.ColorRGB) Sx {
	if c == nil {
		return sNil
	}
	return L(c.Red, c.Green, c.Blue)
}
func sxIndex(c *rwp.ColorIndex) Sx {
	if c == nil {
		return sNil
	}
	return int32(c.Index)
}
func sxColor(c *rwp.Color) Sx {
	if c == nil {
		return sNil
	}
	return L(sxRGB(c.ColorRGB), sxIndex(c.ColorIndex))
}
func sxHWCColor(c *rwp.HWCColor) Sx {
	if c == nil {
		return sNil
	}
	return L(sxRGB(c.ColorRGB), sxIndex(c.ColorIndex))
}
func sxFont(f *rwp.HWCText_TextStyle_Font) Sx {
	if f == nil {
		return sNil
	}
	return L(int32(f.FontFace), f.TextHeight, f.TextWidth)
}
func sxText(t *rwp.HWCText) Sx {
	if t == nil {
		return sNil
	}
	var sc, st Sx = sNil, sNil
	if t.Scale != nil {
		sc = L(int32(t.Scale.ScaleType), t.Scale.RangeLow, t.Scale.RangeHigh, t.Scale.LimitLow, t.Scale.LimitHigh)
	}
	if s := t.TextStyling; s != nil {
		st = L(sxFont(s.TitleFont), sxFont(s.TextFont), s.FixedWidth, s.TitleBarPadding, s.ExtraCharacterSpacing, s.UnformattedFontSize)
	}
	return L(t.IntegerValue, int32(t.Formatting), int32(t.StateIcon), int32(t.ModifierIcon), t.Title, t.SolidHeaderBar,
		t.Textline1, t.Textline2, t.IntegerValue2, int32(t.PairMode), sc, st, t.Inverted,
		sxColor(t.PixelColor), sxColor(t.BackgroundColor), len(t.ProtoReflect().GetUnknown()) > 0)
}
func sxGfx(g *rwp.HWCGfx) Sx {
	if g == nil {
		return sNil
	}
	d := g.ImageData
	if d == nil {
		d = []byte{}
	}
	return L(int32(g.ImageType), g.W, g.H, g.XYoffset, g.X, g.Y, d, len(g.ProtoReflect().GetUnknown()) > 0)
}
func sxState(s *rwp.HWCState, pm payloadMode) Sx {
	if s == nil {
		return sNil
	}
	ids := []Sx{}
	for _, i := range s.HWCIDs {
		ids = append(ids, i)
	}
	var mo, ex, adc, pr Sx = sNil, sNil, sNil, sNil
	if s.HWCMode != nil {
		mo = L(int32(s.HWCMode.State), s.HWCMode.Output, s.HWCMode.BlinkPattern)
	}
	if s.HWCExtended != nil {
		ex = L(int32(s.HWCExtended.Interpretation), s.HWCExtended.Value)
	}
	if s.PublishRawADCValues != nil {
		adc = s.PublishRawADCValues.Enabled
	}
	if s.Processors != nil {
		if pm == payloadJSON {
			j, _ := json.Marshal(s)
			pr = j
		} else {
			pr = detMarshal(s.Processors)
		}
	}
	return L(Sym("s"), ids, mo, sxHWCColor(s.HWCColor), ex, sxText(s.HWCText), sxGfx(s.HWCGfx), adc, pr)
}
func sxNetCfg(n *rwp.NetworkConfig, pm payloadMode) Sx {
	if n == nil {
		return sNil
	}
	if pm == payloadJSON {
		j, err := json.Marshal(n)
		if err != nil {
			return []byte{}
		}
		return j
	}
	return detMarshal(n)
}
func sxCmd(c *rwp.Command, pm payloadMode) Sx {
	if c == nil {
		return sNil
	}
	r := L(Sym("c"), c.ActivatePanel, c.SendPanelInfo, c.ReportHWCavailability, c.SendPanelTopology, c.SendBurninProfile,
		c.SendCalibrationProfile, c.SendNetworkConfig, c.SendRegisters, c.GetConnections, c.GetRunTimeStats,
		c.ClearAll, c.ClearLEDs, c.ClearDisplays, c.GetSleepTimeout, c.WakeUp, c.Reboot)
	opt := func(present bool, v Sx) {
		if present {
			r = append(r, v)
		} else {
			r = append(r, sNil)
		}
	}
	if c.PanelBrightness != nil {
		r = append(r, L(c.PanelBrightness.LEDs, c.PanelBrightness.OLEDs))
	} else {
		r = append(r, sNil)
	}
	if c.SetCalibrationProfile != nil {
		r = append(r, c.SetCalibrationProfile.Json)
	} else {
		r = append(r, sNil)
	}
	r = append(r, sxNetCfg(c.SetNetworkConfig, pm))
	if c.SimulateEnvironmentalHealth != nil {
		r = append(r, int32(c.SimulateEnvironmentalHealth.RunMode))
	} else {
		r = append(r, sNil)
	}
	opt(c.SetSleepTimeout != nil, c.GetSetSleepTimeout().GetValue())
	opt(c.SetSleepMode != nil, int32(c.GetSetSleepMode().GetMode()))
	opt(c.SetSleepScreenSaver != nil, int32(c.GetSetSleepScreenSaver().GetType()))
	opt(c.SetDimmedGain != nil, c.GetSetDimmedGain().GetValue())
	opt(c.SetHeartBeatTimer != nil, c.GetSetHeartBeatTimer().GetValue())
	opt(c.PublishSystemStat != nil, c.GetPublishSystemStat().GetPeriodSec())
	opt(c.LoadCPU != nil, int32(c.GetLoadCPU().GetLevel()))
	opt(c.SetWebserverEnabled != nil, c.GetSetWebserverEnabled().GetEnabled())
	opt(c.JSONconfig != nil, c.GetJSONconfig().GetOutbound())
	return r
}
func sxReg(r *rwp.Register) Sx {
	if r == nil {
		return sNil
	}
	return L(Sym("r"), int32(r.Reg), r.Id, r.Value)
}
func sxMsg(m *rwp.InboundMessage, pm payloadMode) Sx {
	if m == nil {
		return sNil
	}
	sts, regs := []Sx{}, []Sx{}
	for _, s := range m.States {
		sts = append(sts, sxState(s, pm))
	}
	for _, r := range m.Registers {
		regs = append(regs, sxReg(r))
	}
	return L(Sym("m"), int32(m.FlowMessage), sxCmd(m.Command, pm), sts, regs)
}
func sxMsgs(ms []*rwp.InboundMessage, pm payloadMode) []Sx {
	r := []Sx{}
	for _, m := range ms {
		r = append(r, sxMsg(m, pm))
	}
	return r
}

// ---------------------------------------------------------------- reader (for -replay of C01 cases)
func isNilNode(n *Node) bool { return n != nil && !n.IsList && n.Atom == "nil" }
func kid(n *Node, i int) *Node {
	if n == nil || i >= len(n.Kids) {
		return &Node{Atom: "nil"}
	}
	return n.Kids[i]
}
func nU32(n *Node) uint32 { return uint32(n.Int()) }
func nI32(n *Node) int32  { return int32(n.Int()) }

func rdRGB(n *Node) *rwp.ColorRGB {
	if isNilNode(n) {
		return nil
	}
	return &rwp.ColorRGB{Red: nU32(kid(n, 0)), Green: nU32(kid(n, 1)), Blue: nU32(kid(n, 2))}
}
func rdIndex(n *Node) *rwp.ColorIndex {
	if isNilNode(n) {
		return nil
	}
	return &rwp.ColorIndex{Index: rwp.ColorIndex_Colors(nI32(n))}
}
func rdColor(n *Node) *rwp.Color {
	if isNilNode(n) {
		return nil
	}
	return &rwp.Color{ColorRGB: rdRGB(kid(n, 0)), ColorIndex: rdIndex(kid(n, 1))}
}
func rdFont(n *Node) *rwp.HWCText_TextStyle_Font {
	if isNilNode(n) {
		return nil
	}
	return &rwp.HWCText_TextStyle_Font{FontFace: rwp.HWCText_TextStyle_Font_FontFaceE(nI32(kid(n, 0))), TextHeight: nU32(kid(n, 1)), TextWidth: nU32(kid(n, 2))}
}

// an unknown field (field number 1000, varint 1) for the [unk] flag
var unknownBytes = []byte{0xc0, 0x3e, 0x01}

func rdText(n *Node) *rwp.HWCText {
	if isNilNode(n) {
		return nil
	}
	t := &rwp.HWCText{
		IntegerValue: nI32(kid(n, 0)), Formatting: rwp.HWCText_FormattingE(nI32(kid(n, 1))),
		StateIcon: rwp.HWCText_StateIconE(nI32(kid(n, 2))), ModifierIcon: rwp.HWCText_ModifierIconE(nI32(kid(n, 3))),
		Title: string(kid(n, 4).Bytes()), SolidHeaderBar: kid(n, 5).Bool(),
		Textline1: string(kid(n, 6).Bytes()), Textline2: string(kid(n, 7).Bytes()),
		IntegerValue2: nI32(kid(n, 8)), PairMode: rwp.HWCText_PairModeE(nI32(kid(n, 9))),
		Inverted: kid(n, 12).Bool(), PixelColor: rdColor(kid(n, 13)), BackgroundColor: rdColor(kid(n, 14)),
	}
	if sc := kid(n, 10); !isNilNode(sc) {
		t.Scale = &rwp.HWCText_ScaleM{ScaleType: rwp.HWCText_ScaleM_ScaleTypeE(nI32(kid(sc, 0))),
			RangeLow: nI32(kid(sc, 1)), RangeHigh: nI32(kid(sc, 2)), LimitLow: nI32(kid(sc, 3)), LimitHigh: nI32(kid(sc, 4))}
	}
	if st := kid(n, 11); !isNilNode(st) {
		t.TextStyling = &rwp.HWCText_TextStyle{TitleFont: rdFont(kid(st, 0)), TextFont: rdFont(kid(st, 1)),
			FixedWidth: kid(st, 2).Bool(), TitleBarPadding: nU32(kid(st, 3)), ExtraCharacterSpacing: nU32(kid(st, 4)),
			UnformattedFontSize: nU32(kid(st, 5))}
	}
	if kid(n, 15).Bool() {
		t.ProtoReflect().SetUnknown(unknownBytes)
	}
	return t
}
func rdGfx(n *Node) *rwp.HWCGfx {
	if isNilNode(n) {
		return nil
	}
	g := &rwp.HWCGfx{ImageType: rwp.HWCGfx_ImageTypeE(nI32(kid(n, 0))), W: nU32(kid(n, 1)), H: nU32(kid(n, 2)),
		XYoffset: kid(n, 3).Bool(), X: nU32(kid(n, 4)), Y: nU32(kid(n, 5)), ImageData: kid(n, 6).Bytes()}
	if len(g.ImageData) == 0 {
		g.ImageData = nil
	}
	if kid(n, 7).Bool() {
		g.ProtoReflect().SetUnknown(unknownBytes)
	}
	return g
}
func rdState(n *Node) *rwp.HWCState {
	if isNilNode(n) {
		return nil
	}
	s := &rwp.HWCState{}
	for _, k := range kid(n, 1).Kids {
		s.HWCIDs = append(s.HWCIDs, nU32(k))
	}
	if m := kid(n, 2); !isNilNode(m) {
		s.HWCMode = &rwp.HWCMode{State: rwp.HWCMode_StateE(nI32(kid(m, 0))), Output: kid(m, 1).Bool(), BlinkPattern: nU32(kid(m, 2))}
	}
	if c := kid(n, 3); !isNilNode(c) {
		s.HWCColor = &rwp.HWCColor{ColorRGB: rdRGB(kid(c, 0)), ColorIndex: rdIndex(kid(c, 1))}
	}
	if x := kid(n, 4); !isNilNode(x) {
		s.HWCExtended = &rwp.HWCExtended{Interpretation: rwp.HWCExtended_InterpretationE(nI32(kid(x, 0))), Value: nU32(kid(x, 1))}
	}
	s.HWCText = rdText(kid(n, 5))
	s.HWCGfx = rdGfx(kid(n, 6))
	if a := kid(n, 7); !isNilNode(a) {
		s.PublishRawADCValues = &rwp.PublishRawADCValues{Enabled: a.Bool()}
	}
	if p := kid(n, 8); !isNilNode(p) {
		// C01 payload: the JSON of the whole state; only Processors is taken from it
		tmp := &rwp.HWCState{}
		json.Unmarshal(p.Bytes(), tmp)
		s.Processors = tmp.Processors
		if s.Processors == nil {
			s.Processors = &rwp.Processors{}
		}
	}
	return s
}
func rdCmd(n *Node) *rwp.Command {
	if isNilNode(n) {
		return nil
	}
	b := func(i int) bool { return kid(n, i).Bool() }
	c := &rwp.Command{ActivatePanel: b(1), SendPanelInfo: b(2), ReportHWCavailability: b(3), SendPanelTopology: b(4),
		SendBurninProfile: b(5), SendCalibrationProfile: b(6), SendNetworkConfig: b(7), SendRegisters: b(8),
		GetConnections: b(9), GetRunTimeStats: b(10), ClearAll: b(11), ClearLEDs: b(12), ClearDisplays: b(13),
		GetSleepTimeout: b(14), WakeUp: b(15), Reboot: b(16)}
	if x := kid(n, 17); !isNilNode(x) {
		c.PanelBrightness = &rwp.Brightness{LEDs: nU32(kid(x, 0)), OLEDs: nU32(kid(x, 1))}
	}
	if x := kid(n, 18); !isNilNode(x) {
		c.SetCalibrationProfile = &rwp.CalibrationProfile{Json: string(x.Bytes())}
	}
	if x := kid(n, 19); !isNilNode(x) {
		nc := &rwp.NetworkConfig{}
		json.Unmarshal(x.Bytes(), nc)
		c.SetNetworkConfig = nc
	}
	if x := kid(n, 20); !isNilNode(x) {
		c.SimulateEnvironmentalHealth = &rwp.Environment{RunMode: rwp.Environment_RunModeE(nI32(x))}
	}
	if x := kid(n, 21); !isNilNode(x) {
		c.SetSleepTimeout = &rwp.SleepTimeout{Value: nU32(x)}
	}
	if x := kid(n, 22); !isNilNode(x) {
		c.SetSleepMode = &rwp.SleepMode{Mode: rwp.SleepMode_SlpMode(nI32(x))}
	}
	if x := kid(n, 23); !isNilNode(x) {
		c.SetSleepScreenSaver = &rwp.SleepScreenSaver{Type: rwp.SleepScreenSaver_SlpScrSaver(nI32(x))}
	}
	if x := kid(n, 24); !isNilNode(x) {
		c.SetDimmedGain = &rwp.DimmedGain{Value: nU32(x)}
	}
	if x := kid(n, 25); !isNilNode(x) {
		c.SetHeartBeatTimer = &rwp.HeartBeatTimer{Value: nU32(x)}
	}
	if x := kid(n, 26); !isNilNode(x) {
		c.PublishSystemStat = &rwp.PublishSystemStat{PeriodSec: nU32(x)}
	}
	if x := kid(n, 27); !isNilNode(x) {
		c.LoadCPU = &rwp.LoadCPU{Level: rwp.LoadCPU_LevelE(nI32(x))}
	}
	if x := kid(n, 28); !isNilNode(x) {
		c.SetWebserverEnabled = &rwp.WebserverState{Enabled: x.Bool()}
	}
	if x := kid(n, 29); !isNilNode(x) {
		c.JSONconfig = &rwp.JSONconfig{Outbound: x.Bool()}
	}
	return c
}
func rdMsg(n *Node) *rwp.InboundMessage {
	if isNilNode(n) {
		return nil
	}
	m := &rwp.InboundMessage{FlowMessage: rwp.InboundMessage_FlowMsg(nI32(kid(n, 1))), Command: rdCmd(kid(n, 2))}
	for _, s := range kid(n, 3).Kids {
		m.States = append(m.States, rdState(s))
	}
	for _, r := range kid(n, 4).Kids {
		if isNilNode(r) {
			m.Registers = append(m.Registers, nil)
		} else {
			m.Registers = append(m.Registers, &rwp.Register{Reg: rwp.Register_RegisterE(nI32(kid(r, 1))), Id: string(kid(r, 2).Bytes()), Value: nU32(kid(r, 3))})
		}
	}
	return m
}
