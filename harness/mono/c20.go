package main

import (
	"fmt"
	"strings"
	"unicode/utf8"

	mono "github.com/SKAARHOJ/rawpanel-lib/ibeam_lib_monogfx"
)

func init() {
	props["C20"] = genC20
	replays["C20"] = replayC20
}

type c20in struct {
	font    int
	prop    bool
	spacing int
	h, v    int
	wrap    bool
	cx, cy  int
	dx, dy  int
	str     []byte
	W, H    int
}

var c20hist = map[string]map[string]int{}

// Generated cases are buffered per class and written interleaved (proportionally), so that
// the driver's bounded list of reported failures always holds failures of every class.
var c20class = -1 // -1: write directly (replay)
var c20buf [4][]string

func c20emit(v Sx) {
	if c20class < 0 {
		emit(v)
		return
	}
	var b strings.Builder
	sx(&b, v)
	c20buf[c20class] = append(c20buf[c20class], b.String())
}

func c20flush() {
	var pos [4]int
	for {
		best, bestFrac := -1, 2.0
		for k := 0; k < 4; k++ {
			if pos[k] < len(c20buf[k]) {
				if f := float64(pos[k]) / float64(len(c20buf[k])); f < bestFrac {
					best, bestFrac = k, f
				}
			}
		}
		if best < 0 {
			break
		}
		out.WriteString(c20buf[best][pos[best]])
		out.WriteString("\n")
		pos[best]++
	}
	c20class = -1
}

func c20count(k, v string) {
	m, ok := c20hist[k]
	if !ok {
		m = map[string]int{}
		c20hist[k] = m
	}
	m[v]++
}

func c20setup(in c20in, h, v int) *mono.MonoImg {
	img := &mono.MonoImg{}
	img.NewImage(in.W, in.H)
	img.SetFont(in.font, in.prop)
	img.SetCharSpacingCompensation(byte(in.spacing))
	img.SetTextSize(h, v)
	img.SetTextColor(true)
	img.SetTextWrap(in.wrap)
	return img
}

// render on a fresh canvas; a panic is reported as the symbol `panic`
func c20render(in c20in, h, v, cx, cy int) (res Sx) {
	defer func() {
		if r := recover(); r != nil {
			res = Sym("panic")
		}
	}()
	img := c20setup(in, h, v)
	img.SetCursor(cx, cy)
	img.RenderText(string(in.str))
	return append([]byte{}, img.GetImgSlice()...)
}

func c20run(in c20in) {
	var strl []Sx
	for _, b := range in.str {
		strl = append(strl, Sx(L(int(b))))
	}
	var sw, lh, sw1, lh1 int
	var ws []byte
	func() {
		defer func() {
			if r := recover(); r != nil {
				sw, lh = -999999, -999999
			}
		}()
		img := c20setup(in, in.h, in.v)
		sw, lh = img.StrWidth(string(in.str)), int(img.LineHeight())
		img1 := c20setup(in, 1, 1)
		sw1, lh1 = img1.StrWidth(string(in.str)), int(img1.LineHeight())
		for _, r := range string(in.str) {
			ws = append(ws, img.GetCharWidth(byte(r)))
		}
	}()
	if ws == nil {
		ws = []byte{}
	}
	bA := c20render(in, in.h, in.v, in.cx, in.cy)
	bB := c20render(in, in.h, in.v, in.cx+in.dx, in.cy+in.dy)
	bC := c20render(in, 1, 1, in.cx, in.cy)
	c20emit(L(Sym("txt"), in.font, in.prop, in.spacing, in.h, in.v, in.wrap, in.cx, in.cy, in.dx, in.dy, strl, in.W, in.H,
		sw, lh, sw1, lh1, ws, bA, bB, bC))
}

// extent of the documented layout (cursor rules) from the implementation's own widths
func c20extent(in c20in) (w, hgt int) {
	img := c20setup(c20in{font: in.font, prop: in.prop, W: 1, H: 1}, 1, 1)
	bbh := 8
	if in.font == 2 {
		bbh = 6
	}
	x, line := 0, 0
	first := true
	maxw := 0
	total := 0
	for _, r := range string(in.str) {
		c := byte(r)
		cw := int(img.GetCharWidth(c))
		total += cw*in.h + in.spacing
		if c == 10 {
			line++
			x = 0
			first = false
			continue
		}
		if c == 13 {
			continue
		}
		off := 0
		if first {
			off = in.cx + maxInt(in.dx, 0)
		}
		if off+x+cw*in.h > maxw {
			maxw = off + x + cw*in.h
		}
		x += cw*in.h + in.spacing
	}
	// the one-line metric box (CR and LF widths counted) must fit as well
	if in.cx+maxInt(in.dx, 0)+total > maxw {
		maxw = in.cx + maxInt(in.dx, 0) + total
	}
	return maxw, in.cy + maxInt(in.dy, 0) + (line+1)*bbh*in.v
}

func maxInt(a, b int) int {
	if a > b {
		return a
	}
	return b
}

func c20fit(in *c20in, slackW, slackH int) {
	w, h := c20extent(*in)
	in.W, in.H = w+slackW, h+slackH
	if in.W < 0 {
		in.W = 0
	}
	if in.H < 0 {
		in.H = 0
	}
}

func c20randString(rng *Rng, n int) ([]byte, string) {
	var b []byte
	class := rng.Intn(10)
	name := "ascii"
	for len(b) < n {
		switch class {
		case 0, 1, 2, 3: // printable
			b = append(b, byte(rng.Range(32, 126)))
		case 4: // printable with CR
			name = "ascii+cr"
			if rng.Intn(5) == 0 {
				b = append(b, 13)
			} else {
				b = append(b, byte(rng.Range(32, 127)))
			}
		case 5: // printable with LF (direct, or through rune truncation U+010A, U+020A)
			name = "ascii+lf"
			switch rng.Intn(12) {
			case 0:
				b = append(b, 10)
			case 1:
				b = append(b, []byte(string(rune(0x10A+0x100*rng.Intn(3))))...)
			default:
				b = append(b, byte(rng.Range(32, 126)))
			}
		case 6: // any byte: mostly invalid UTF-8
			name = "anybyte"
			b = append(b, byte(rng.Intn(256)))
		case 7: // valid multi-byte runes, truncated to a byte by the renderer
			name = "utf8"
			r := rune(rng.Pick([]int{0xC5, 0xE6, 0x20AC, 0x10D, 0x141, 0x1F600, 0x7FF, 0x800, 0xFFFD, 0x120, 0x17E}))
			if rng.Bool() {
				r = rune(rng.Range(0x80, 0x2FF))
			}
			b = append(b, []byte(string(r))...)
		case 8: // control characters
			name = "control"
			b = append(b, byte(rng.Pick([]int{0, 1, 9, 10, 13, 27, 31, 127, 128, 255, 32, 65})))
		default: // mixed
			name = "mixed"
			switch rng.Intn(6) {
			case 0:
				b = append(b, byte(rng.Intn(256)))
			case 1:
				b = append(b, byte(rng.Pick([]int{10, 13, 0xC4, 0x8A, 0xE2, 0x82, 0xAC, 0xF0, 0xED, 0xA0, 0x80})))
			default:
				b = append(b, byte(rng.Range(32, 126)))
			}
		}
	}
	if len(b) > n && n >= 0 {
		b = b[:n] // may cut a multi-byte sequence: one more malformed case
	}
	return b, name
}

func c20note(in c20in, class string) {
	c20count("class", class)
	c20count("len", fmt.Sprintf("%02d", len(in.str)/4*4))
	c20count("font", fmt.Sprintf("%d/%v", in.font, in.prop))
	c20count("size", fmt.Sprintf("%dx%d", in.h, in.v))
	c20count("spacing", fmt.Sprint(in.spacing))
	hasLF, hasCR, hi := false, false, false
	for _, r := range string(in.str) {
		switch byte(r) {
		case 10:
			hasLF = true
		case 13:
			hasCR = true
		}
		if r > 127 {
			hi = true
		}
	}
	c20count("has_lf", fmt.Sprint(hasLF))
	c20count("has_cr", fmt.Sprint(hasCR))
	c20count("non_ascii", fmt.Sprint(hi))
	c20count("valid_utf8", fmt.Sprint(utf8.Valid(in.str)))
	c20count("wrap", fmt.Sprint(in.wrap))
}

// ---- stateful sequences on ONE image object: (seq W H (ops) (obs)) ----
type c20op struct {
	sx  []Sx
	run func(img *mono.MonoImg) Sx
}

func c20oFont(n int, p bool) c20op {
	return c20op{L(Sym("font"), n, p), func(i *mono.MonoImg) Sx { i.SetFont(n, p); return 0 }}
}
func c20oTsz(h, v int) c20op {
	return c20op{L(Sym("tsz"), h, v), func(i *mono.MonoImg) Sx { i.SetTextSize(h, v); return 0 }}
}
func c20oSpc(sp int) c20op {
	return c20op{L(Sym("spc"), sp), func(i *mono.MonoImg) Sx { i.SetCharSpacingCompensation(byte(sp)); return 0 }}
}
func c20oCur(x, y int) c20op {
	return c20op{L(Sym("cur"), x, y), func(i *mono.MonoImg) Sx { i.SetCursor(x, y); return 0 }}
}
func c20oWrap(w bool) c20op {
	return c20op{L(Sym("wrap"), w), func(i *mono.MonoImg) Sx { i.SetTextWrap(w); return 0 }}
}
func c20oClr() c20op {
	return c20op{L(Sym("clr")), func(i *mono.MonoImg) Sx {
		i.FillRect(0, 0, i.Width, i.Height, false)
		return append([]byte{}, i.GetImgSlice()...)
	}}
}
func c20oSw(str []byte) c20op {
	return c20op{L(Sym("sw"), str), func(i *mono.MonoImg) Sx { return i.StrWidth(string(str)) }}
}
func c20oLh() c20op {
	return c20op{L(Sym("lh")), func(i *mono.MonoImg) Sx { return int(i.LineHeight()) }}
}
func c20oTxt(str []byte) c20op {
	return c20op{L(Sym("txt"), str), func(i *mono.MonoImg) Sx {
		w, h := i.StrWidth(string(str)), int(i.LineHeight())
		i.RenderText(string(str))
		return L(w, h, append([]byte{}, i.GetImgSlice()...))
	}}
}

func c20seq(W, H int, ops []c20op) {
	img := &mono.MonoImg{}
	img.NewImage(W, H)
	img.SetTextColor(true)
	var opsx, obs []Sx
	for _, o := range ops {
		opsx = append(opsx, Sx(o.sx))
		c20count("seq_op", string(o.sx[0].(Sym)))
		func() {
			defer func() {
				if r := recover(); r != nil {
					obs = append(obs, Sx(Sym("panic")))
				}
			}()
			obs = append(obs, o.run(img))
		}()
	}
	c20emit(L(Sym("seq"), W, H, opsx, obs))
}

// strings for stateful cases: no line feed (also not through rune truncation)
func c20plainString(rng *Rng, n int) []byte {
	b := make([]byte, n)
	for i := range b {
		switch rng.Intn(12) {
		case 0:
			b[i] = 13
		case 1:
			b[i] = byte(rng.Pick([]int{0, 31, 127, 128, 200, 255}))
		default:
			b[i] = byte(rng.Range(32, 126))
		}
	}
	return b
}

func genC20seq(thorough bool, rng *Rng) {
	const W, H = 400, 48
	strs := [][]byte{[]byte("Hello"), []byte("Cam 12"), []byte("WW"), []byte("il"), []byte("A\rB")}
	// 1. measure - change ONE setting - measure/render the same string again, for every kind of
	//    setting, every font/mode, sizes, and every ordered pair of spacings 0-3
	for f := 0; f < 3; f++ {
		for _, p := range []bool{true, false} {
			for _, sz := range [][2]int{{1, 1}, {2, 2}, {3, 1}, {1, 3}} {
				for a := 0; a < 4; a++ {
					for b := 0; b < 4; b++ {
						if a == b || (!thorough && (a+b+f+sz[0])%2 == 1) {
							continue
						}
						str := strs[(a*4+b+f)%len(strs)]
						c20seq(W, H, []c20op{c20oWrap(false), c20oFont(f, p), c20oTsz(sz[0], sz[1]), c20oSpc(a),
							c20oSw(str), c20oLh(), c20oSpc(b), c20oSw(str), c20oCur(6, 4), c20oTxt(str)})
					}
				}
				str := strs[(f+sz[0])%len(strs)]
				other := strs[(f+sz[0]+1)%len(strs)]
				f2, p2 := (f+1)%3, !p
				// size, font, mode, wrap changed between two measurements of the same string; a different
				// string measured in between; rendering twice from explicit cursors
				c20seq(W, H, []c20op{c20oWrap(false), c20oFont(f, p), c20oTsz(sz[0], sz[1]), c20oSpc(1), c20oSw(str),
					c20oTsz(sz[1]+1, sz[0]), c20oSw(str), c20oLh(), c20oCur(3, 2), c20oTxt(str)})
				c20seq(W, H, []c20op{c20oWrap(false), c20oFont(f, p), c20oTsz(sz[0], sz[1]), c20oSpc(2), c20oSw(str),
					c20oFont(f2, p), c20oSw(str), c20oCur(0, 0), c20oTxt(str), c20oFont(f, p2), c20oSw(str), c20oClr(), c20oCur(9, 7), c20oTxt(str)})
				c20seq(W, H, []c20op{c20oFont(f, p), c20oTsz(sz[0], sz[1]), c20oSpc(0), c20oSw(str), c20oWrap(false), c20oSpc(3),
					c20oSw(other), c20oSw(str), c20oCur(5, 5), c20oTxt(str), c20oClr(), c20oSpc(1), c20oCur(5, 5), c20oTxt(other), c20oCur(2, 30-8*minInt(sz[1], 3)), c20oTxt(str)})
			}
		}
	}
	// 1b. a per-character memo that outlives a setting change (seed C20-6): the LAST character measured or
	//     drawn under setting A is the FIRST (and the last, and the only) character measured and drawn under
	//     setting B; A -> B is a mode flip, a font change, a size change or a spacing change; characters
	//     whose proportional / fixed / per-font widths differ most (i l 1 . ' W M m space, an unknown byte)
	type setting struct {
		f    int
		p    bool
		h, v int
		sp   int
	}
	chars := []byte{'i', 'l', '1', '.', '\'', 'W', 'M', 'm', ' ', 200}
	if !thorough {
		chars = []byte{'i', 'l', '.', 'W', ' ', 200}
	}
	for f := 0; f < 3; f++ {
		for _, p := range []bool{true, false} {
			for _, sz := range [][2]int{{1, 1}, {2, 1}, {3, 2}, {4, 4}} {
				A := setting{f, p, sz[0], sz[1], 0}
				Bs := []setting{{f, !p, sz[0], sz[1], 0}, {(f + 1) % 3, p, sz[0], sz[1], 0}, {(f + 2) % 3, !p, sz[0], sz[1], 0},
					{f, p, sz[0]%4 + 1, sz[1], 0}, {f, p, sz[0], sz[1], 2}}
				for bi, B := range Bs {
					for ci, c := range chars {
						if !thorough && (bi+ci+f+sz[0])%2 == 1 {
							continue
						}
						pre := append(c20plainString(rng, rng.Range(0, 3)), c)
						post := append([]byte{c}, c20plainString(rng, rng.Range(0, 3))...)
						last := c20oSw(pre)
						if (bi+ci)%2 == 1 {
							last = c20oTxt(pre) // the last look-up under A comes from drawing, not from measuring
						}
						setB := []c20op{c20oFont(B.f, B.p), c20oTsz(B.h, B.v), c20oSpc(B.sp)}
						if B.f == A.f && B.p == A.p { // leave the font untouched when only size / spacing change
							setB = setB[1:]
						}
						ops := []c20op{c20oWrap(false), c20oFont(A.f, A.p), c20oTsz(A.h, A.v), c20oSpc(A.sp), c20oCur(2, 2), last}
						ops = append(ops, setB...)
						ops = append(ops, c20oClr(), c20oSw(post), c20oCur(7, 3), c20oTxt(post), c20oClr(), c20oCur(40, 9), c20oTxt([]byte{c}),
							c20oClr(), c20oSw(append(append([]byte{}, post...), c)), c20oCur(11, 5), c20oTxt(append(append([]byte{}, post...), c)))
						c20seq(W, H, ops)
					}
				}
			}
		}
	}
	// 2. random interleavings
	n := 700
	if thorough {
		n = 12000
	}
	for i := 0; i < n; i++ {
		pool := [][]byte{c20plainString(rng, rng.Range(2, 8)), c20plainString(rng, rng.Range(0, 6)), strs[rng.Intn(len(strs))]}
		ops := []c20op{c20oWrap(rng.Intn(8) == 0)}
		v := 1
		ln := rng.Range(6, 18)
		for k := 0; k < ln; k++ {
			str := pool[rng.Intn(len(pool))]
			switch rng.Intn(20) {
			case 0, 1, 2, 3, 4:
				ops = append(ops, c20oSw(str))
			case 5, 6, 7, 8:
				ops = append(ops, c20oCur(rng.Range(0, 20), rng.Range(0, maxInt(0, H-8*v))), c20oTxt(str))
			case 9:
				ops = append(ops, c20oTxt(str)) // from wherever the cursor is: model comparison only
			case 10, 11, 12:
				ops = append(ops, c20oSpc(rng.Pick([]int{0, 1, 2, 3, 3, 7})))
			case 13, 14:
				h := rng.Range(1, 3)
				v = rng.Range(1, 3)
				if rng.Intn(6) == 0 {
					h, v = rng.Range(-1, 4), rng.Range(0, 4)
					if v < 1 {
						v = maxInt(h, 1)
					}
				}
				ops = append(ops, c20oTsz(h, v))
				if v > 4 {
					v = 4
				}
			case 15, 16:
				ops = append(ops, c20oFont(rng.Range(0, 3), rng.Bool()))
			case 17:
				ops = append(ops, c20oLh())
			case 18:
				ops = append(ops, c20oWrap(rng.Intn(4) == 0))
			default:
				ops = append(ops, c20oClr())
			}
		}
		c20seq(W, H, ops)
	}
}

func minInt(a, b int) int {
	if a < b {
		return a
	}
	return b
}

func genC20(tier string, rng *Rng) {
	thorough := tier == "thorough"
	// 1. every single character x fonts x modes x spacing 0-3 x sizes 1-4 x 1-4, two cursors each
	//    (quick: every character/font/mode with a rotating third of the 64 combinations)
	c20class = 0
	cursors := [][4]int{{0, 0, 5, 3}, {3, 2, -2, 1}, {9, 5, 4, -5}, {1, 7, -1, -7}}
	k := 0
	for f := 0; f < 3; f++ {
		for _, p := range []bool{true, false} {
			for c := 0; c < 256; c++ {
				for combo := 0; combo < 64; combo++ {
					if !thorough && (combo+c*7+f*3)%3 != 0 {
						continue
					}
					s, h, v := combo&3, (combo>>2)&3+1, (combo>>4)&3+1
					cur := cursors[k%len(cursors)]
					k++
					in := c20in{font: f, prop: p, spacing: s, h: h, v: v, cx: cur[0], cy: cur[1], dx: cur[2], dy: cur[3], str: []byte{byte(c)}}
					if c >= 128 {
						// bytes >= 128 alone are invalid UTF-8 (-> U+FFFD -> 0xFD); reach the byte through its rune too
						if k%2 == 0 {
							in.str = []byte(string(rune(c)))
						}
					}
					c20fit(&in, k%3, k%2)
					c20note(in, "single")
					c20run(in)
				}
			}
		}
	}
	// 2. boundary strings
	c20class = 1
	for f := 0; f < 3; f++ {
		for _, p := range []bool{true, false} {
			for _, str := range []string{"", "\r", "\n", "\r\n", "A\nB", "AB", "A\rB", "\nA", "A\n", "\n\n", "W\n\nW", " ", "  A ", "\x00", "Ċ", "AĊB", "\xff", "iiii", "WWWWWWWWWWWWWWWWWWWWWWWW", "~\x7f\x80"} {
				for _, sz := range [][3]int{{1, 1, 0}, {2, 2, 2}, {1, 3, 1}, {4, 4, 3}, {3, 1, 0}} {
					in := c20in{font: f, prop: p, spacing: sz[2], h: sz[0], v: sz[1], cx: 10, cy: 5, dx: 3, dy: 1, str: []byte(str)}
					c20fit(&in, 2, 1)
					c20note(in, "boundary")
					c20run(in)
				}
			}
		}
	}
	// 2b. LONG strings: the columns of a line add up past 255, 256, 511, 512 in every font and mode (seed
	// C20-13: StrWidth summed the glyph columns in a byte - right up to 42 characters of the 5x7 font,
	// wrapping from the 43rd)
	for f := 0; f < 3; f++ {
		for _, p := range []bool{true, false} {
			for _, ch := range []string{"W", "M", "i", "Wi", "a b"} {
				for _, n := range []int{31, 32, 33, 42, 43, 44, 51, 52, 64, 86, 128} {
					str := strings.Repeat(ch, (n+len(ch)-1)/len(ch))[:n]
					for _, sz := range [][3]int{{1, 1, 0}, {1, 1, 1}, {2, 1, 0}} {
						if sz[0] == 2 && n > 64 {
							continue
						}
						in := c20in{font: f, prop: p, spacing: sz[2], h: sz[0], v: sz[1], cx: 3, cy: 1, dx: 2, dy: 0, str: []byte(str)}
						c20fit(&in, 2, 1)
						c20note(in, "long")
						c20run(in)
					}
				}
			}
		}
	}
	// 3. random strings, length 0-24, all bytes incl. invalid UTF-8
	c20class = 2
	n := 4000
	if thorough {
		n = 40000
	}
	for i := 0; i < n; i++ {
		h, v := rng.Range(1, 4), rng.Range(1, 4)
		maxlen := 24
		if h >= 3 {
			maxlen = 12 // keeps canvases (and the model's list buffers) moderate; long strings at sizes 1-2
		}
		ln := rng.Range(0, maxlen)
		if rng.Intn(4) == 0 {
			ln = rng.Range(0, 3)
		}
		str, class := c20randString(rng, ln)
		in := c20in{font: rng.Intn(3), prop: rng.Bool(), spacing: rng.Pick([]int{0, 0, 0, 1, 2, 3}), h: h, v: v,
			cx: rng.Range(0, 12), cy: rng.Range(0, 9), str: str}
		in.dx, in.dy = rng.Range(-in.cx, 9), rng.Range(-in.cy, 7)
		if rng.Intn(40) == 0 {
			in.spacing = rng.Pick([]int{7, 255})
		}
		in.wrap = rng.Intn(12) == 0
		c20fit(&in, rng.Intn(4), rng.Intn(3))
		switch rng.Intn(14) {
		case 0: // too small: clipping (box law and model comparison only)
			in.W, in.H = in.W*rng.Range(0, 3)/4, in.H-rng.Intn(3)
			if in.H < 0 {
				in.H = 0
			}
			c20count("canvas", "clipping")
		case 1: // negative / far cursor
			in.cx, in.cy = rng.Range(-20, 5), rng.Range(-12, 4)
			c20count("canvas", "cursor-outside")
		default:
			c20count("canvas", "fits")
		}
		c20note(in, class)
		c20run(in)
	}
	// 4. stateful sequences on one image object
	c20class = 3
	genC20seq(thorough, rng)
	c20flush()
	meta(map[string]interface{}{"property": "C20", "input_histograms": c20hist})
}

func replayC20(line string) {
	n := parseSexp(line)
	if n != nil && n.IsList && len(n.Kids) >= 4 && n.Kids[0].Atom == "seq" {
		var ops []c20op
		for _, o := range n.Kids[3].Kids {
			k := o.Kids
			switch k[0].Atom {
			case "font":
				ops = append(ops, c20oFont(k[1].Int(), k[2].Bool()))
			case "tsz":
				ops = append(ops, c20oTsz(k[1].Int(), k[2].Int()))
			case "spc":
				ops = append(ops, c20oSpc(k[1].Int()))
			case "cur":
				ops = append(ops, c20oCur(k[1].Int(), k[2].Int()))
			case "wrap":
				ops = append(ops, c20oWrap(k[1].Bool()))
			case "clr":
				ops = append(ops, c20oClr())
			case "sw":
				ops = append(ops, c20oSw(k[1].Bytes()))
			case "lh":
				ops = append(ops, c20oLh())
			case "txt":
				ops = append(ops, c20oTxt(k[1].Bytes()))
			}
		}
		c20seq(n.Kids[1].Int(), n.Kids[2].Int(), ops)
		return
	}
	if n == nil || !n.IsList || len(n.Kids) < 14 || n.Kids[0].Atom != "txt" {
		return
	}
	k := n.Kids
	in := c20in{font: k[1].Int(), prop: k[2].Bool(), spacing: k[3].Int(), h: k[4].Int(), v: k[5].Int(), wrap: k[6].Bool(),
		cx: k[7].Int(), cy: k[8].Int(), dx: k[9].Int(), dy: k[10].Int(), W: k[12].Int(), H: k[13].Int()}
	for _, b := range k[11].Kids {
		if b.IsList && len(b.Kids) == 1 {
			in.str = append(in.str, byte(b.Kids[0].Int()))
		}
	}
	c20run(in)
}
