package main

import (
	"fmt"

	mono "github.com/SKAARHOJ/rawpanel-lib/ibeam_lib_monogfx"
)

func init() {
	props["C16"] = genC16
	replays["C16"] = replayC16
}

// an op is its s-expression plus a closure applying it to the implementation
type mop struct {
	sx    []Sx
	apply func(img *mono.MonoImg)
}

func opPixel(x, y int, c bool) mop {
	return mop{L(Sym("px"), x, y, c), func(i *mono.MonoImg) { i.DrawPixel(x, y, c) }}
}
func opHL(x, y, w int, c bool) mop {
	return mop{L(Sym("hl"), x, y, w, c), func(i *mono.MonoImg) { i.DrawFastHLine(x, y, w, c) }}
}
func opVL(x, y, h int, c bool) mop {
	return mop{L(Sym("vl"), x, y, h, c), func(i *mono.MonoImg) { i.DrawFastVLine(x, y, h, c) }}
}
func opFR(x, y, w, h int, c bool) mop {
	return mop{L(Sym("fr"), x, y, w, h, c), func(i *mono.MonoImg) { i.FillRect(x, y, w, h, c) }}
}
func opRR(x, y, w, h, r int, c bool) mop {
	return mop{L(Sym("rr"), x, y, w, h, r, c), func(i *mono.MonoImg) { i.DrawRoundRect(x, y, w, h, r, c) }}
}
func opFRR(x, y, w, h, r int, c bool) mop {
	return mop{L(Sym("frr"), x, y, w, h, r, c), func(i *mono.MonoImg) { i.FillRoundRect(x, y, w, h, r, c) }}
}
func opCH(x, y, r, k int, c bool) mop {
	return mop{L(Sym("ch"), x, y, r, k, c), func(i *mono.MonoImg) { i.DrawCircleHelper(x, y, r, k, c) }}
}
func opFCH(x, y, r, k, dl int, c bool) mop {
	return mop{L(Sym("fch"), x, y, r, k, dl, c), func(i *mono.MonoImg) { i.FillCircleHelper(x, y, r, k, dl, c) }}
}
func opBM(x, y int, bm []byte, w, h int, c, inv, all bool) mop {
	return mop{L(Sym("bm"), x, y, bm, w, h, c, inv, all), func(i *mono.MonoImg) { i.DrawBitmap(x, y, bm, w, h, c, inv, all) }}
}
func opChr(x, y int, ch byte, c, bg bool, sh, sv int) mop {
	return mop{L(Sym("chr"), x, y, int(ch), c, bg, sh, sv), func(i *mono.MonoImg) { i.DrawChar(x, y, ch, c, bg, sh, sv) }}
}
func opTxt(s []byte) mop {
	return mop{L(Sym("txt"), s), func(i *mono.MonoImg) { i.RenderText(string(s)) }}
}
func opBBox(x, y, w, h int) mop {
	return mop{L(Sym("bbox"), x, y, w, h), func(i *mono.MonoImg) { i.SetBoundingBox(x, y, w, h) }}
}
func opInv(v bool) mop { return mop{L(Sym("inv"), v), func(i *mono.MonoImg) { i.InvertPixels(v) }} }
func opFont(n int, p bool) mop {
	return mop{L(Sym("font"), n, p), func(i *mono.MonoImg) { i.SetFont(n, p) }}
}
func opCur(x, y int) mop {
	return mop{L(Sym("cur"), x, y), func(i *mono.MonoImg) { i.SetCursor(x, y) }}
}
func opTsz(h, v int) mop {
	return mop{L(Sym("tsz"), h, v), func(i *mono.MonoImg) { i.SetTextSize(h, v) }}
}
func opTcol(c bool) mop { return mop{L(Sym("tcol"), c), func(i *mono.MonoImg) { i.SetTextColor(c) }} }
func opSpc(s int) mop {
	return mop{L(Sym("spc"), s), func(i *mono.MonoImg) { i.SetCharSpacingCompensation(byte(s)) }}
}
func opWrap(w bool) mop { return mop{L(Sym("wrap"), w), func(i *mono.MonoImg) { i.SetTextWrap(w) }} }

var c16stats = map[string]int{}

// runSeq runs ops on a fresh W x H canvas and emits (seq W H (ops) (bufs)).
// A panic is reported as the symbol `panic` in place of the buffer (never equal to a model buffer).
func runSeq(W, H int, ops []mop) {
	img := &mono.MonoImg{}
	img.NewImage(W, H)
	runSeqOn(img, W, H, ops)
}

// runSeqOn: the canvas object is supplied (fresh, or USED before and re-initialised with NewImage)
func runSeqOn(img *mono.MonoImg, W, H int, ops []mop) {
	var opsx, bufs []Sx
	for _, o := range ops {
		opsx = append(opsx, Sx(o.sx))
		c16stats[string(o.sx[0].(Sym))]++
		func() {
			defer func() {
				if r := recover(); r != nil {
					bufs = append(bufs, Sx(Sym("panic")))
				}
			}()
			o.apply(img)
			cp := append([]byte{}, img.GetImgSlice()...)
			bufs = append(bufs, Sx(cp))
		}()
	}
	emit(L(Sym("seq"), W, H, opsx, bufs))
}

// runSeqFrom: canvas created with CreateFromBytes over a caller buffer of at least ceil(W/8)*H bytes
// (padding bits may be set): emits (seqb W H #init (ops) (bufs)).
func runSeqFrom(W, H int, init []byte, ops []mop) {
	img := &mono.MonoImg{}
	buf := append([]byte{}, init...)
	if err := img.CreateFromBytes(W, H, buf); err != nil {
		return
	}
	var opsx, bufs []Sx
	for _, o := range ops {
		opsx = append(opsx, Sx(o.sx))
		c16stats[string(o.sx[0].(Sym))]++
		func() {
			defer func() {
				if r := recover(); r != nil {
					bufs = append(bufs, Sx(Sym("panic")))
				}
			}()
			o.apply(img)
			cp := append([]byte{}, img.GetImgSlice()...)
			bufs = append(bufs, Sx(cp))
		}()
	}
	c16stats["from-bytes"]++
	emit(L(Sym("seqb"), W, H, init, opsx, bufs))
}

func chunked(W, H int, pre []mop, ops []mop, n int) {
	for len(ops) > 0 {
		k := n
		if k > len(ops) {
			k = len(ops)
		}
		seq := append(append([]mop{}, pre...), ops[:k]...)
		runSeq(W, H, seq)
		ops = ops[k:]
	}
}

func genC16(tier string, rng *Rng) {
	thorough := tier == "thorough"
	canvW := []int{0, 1, 7, 8, 9, 12}
	canvH := []int{0, 1, 3, 5}
	if thorough {
		canvW = []int{0, 1, 2, 7, 8, 9, 12, 15, 16, 17, 24}
		canvH = []int{0, 1, 2, 3, 5, 8}
	}
	huge := []int{-(1 << 62), -(1 << 31) - 1, -(1 << 31), -1000, 1000, 1 << 31, (1 << 31) + 1, 1 << 62}
	type bb struct{ x, y, w, h int }
	for _, W := range canvW {
		for _, H := range canvH {
			bboxes := []bb{{0, 0, W, H}, {2, 1, W - 3, H - 2}, {-3, -2, W, H}, {1, 1, W + 5, H + 5}, {5, 2, -1, 0}, {3, 0, 2, 100}, {-9, 1, 12, 2}}
			for bi, b := range bboxes {
				for _, inv := range []bool{false, true} {
					for _, prefill := range []bool{false, true} {
						var pre []mop
						if prefill {
							pre = append(pre, opFR(0, 0, W, H, true))
						}
						pre = append(pre, opBBox(b.x, b.y, b.w, b.h), opInv(inv))
						// 1. pixels: exhaustive window
						var ops []mop
						xlo, xhi, ylo, yhi := -20, 30, -6, 10
						if !thorough && (bi > 3 || prefill && inv) {
							xlo, xhi = -12, 16
						}
						for y := ylo; y <= yhi; y++ {
							for x := xlo; x <= xhi; x++ {
								c := (x+y)&1 == 0 != prefill
								ops = append(ops, opPixel(x, y, c))
							}
						}
						for _, hx := range huge {
							for _, y := range []int{-1, 0, 1, 2} {
								ops = append(ops, opPixel(hx, y, true), opPixel(y, hx, true), opPixel(hx, hx, !prefill))
							}
						}
						chunked(W, H, pre, ops, 120)
						// 2. lines and rectangles
						ops = nil
						coords := []int{-12, -9, -8, -7, -1, 0, 1, 3, 7, 8, 11, 12, 20}
						sizes := []int{-3, 0, 1, 2, 5, 8, 9, 25}
						if !thorough {
							coords = []int{-9, -8, -1, 0, 2, 7, 8, 13}
							sizes = []int{-3, 0, 1, 3, 9, 25}
						}
						for _, x := range coords {
							for _, y := range []int{-4, -1, 0, 1, 2, 4, 6} {
								for _, s := range sizes {
									c := !prefill
									ops = append(ops, opHL(x, y, s, c), opVL(x, y, s, c))
									if thorough || (x+y+s)%3 == 0 {
										ops = append(ops, opFR(x, y, s, (s+y+7)%7-1, c), opFR(x, y, 2, s, !c))
									}
								}
							}
						}
						chunked(W, H, pre, ops, 60)
						// 3. rounded rectangles and corner helpers
						if thorough || (bi < 4 && !(prefill && inv)) {
							ops = nil
							for r := 0; r <= 6; r++ {
								for _, x := range []int{-5, 0, 3} {
									for _, y := range []int{-3, 0, 2} {
										for k := 0; k < 16; k++ {
											if thorough || k == 1 || k == 2 || k == 4 || k == 8 || k == 15 || k == 6 {
												ops = append(ops, opCH(x, y, r, k, !prefill))
											}
										}
										for k := 0; k < 4; k++ {
											ops = append(ops, opFCH(x, y, r, k, r-3, !prefill))
										}
										ops = append(ops, opRR(x, y, 9+r, 5+r, r, !prefill), opFRR(x, y, 8+r, 4+r, r, !prefill),
											opRR(x, y, 4, 3, r, prefill), opFRR(x, y, 5, 2, r, prefill))
									}
								}
							}
							ops = append(ops, opCH(2, 2, -3, 15, true), opFCH(2, 2, -1, 3, 4, true), opRR(0, 0, -4, -4, 2, true), opFRR(1, 1, 0, 0, 0, true))
							chunked(W, H, pre, ops, 40)
						}
					}
				}
			}
		}
	}
	// 4. bitmaps
	nb := 300
	if thorough {
		nb = 3000
	}
	for n := 0; n < nb; n++ {
		W, H := rng.Range(0, 20), rng.Range(0, 10)
		var ops []mop
		if rng.Bool() {
			ops = append(ops, opFR(0, 0, W, H, true))
		}
		if rng.Intn(3) == 0 {
			ops = append(ops, opBBox(rng.Range(-4, 6), rng.Range(-3, 4), rng.Range(-1, 20), rng.Range(-1, 10)))
		}
		ops = append(ops, opInv(rng.Bool()))
		for k := 0; k < 6; k++ {
			w, h := rng.Range(-1, 19), rng.Range(-1, 9)
			need := 0
			if w > 0 && h > 0 {
				need = (w + 7) / 8 * h
			}
			ln := need
			switch rng.Intn(4) {
			case 0:
				ln = rng.Intn(need + 1)
			case 1:
				ln = need + rng.Intn(3)
			}
			ops = append(ops, opBM(rng.Range(-10, 22), rng.Range(-6, 12), rng.Bytes(ln), w, h, rng.Bool(), rng.Bool(), rng.Bool()))
		}
		runSeq(W, H, ops)
	}
	// 5. characters and text, three fonts
	nt := 400
	if thorough {
		nt = 6000
	}
	for n := 0; n < nt; n++ {
		W, H := rng.Range(0, 40), rng.Range(0, 24)
		var ops []mop
		if rng.Intn(3) == 0 {
			ops = append(ops, opFR(0, 0, W, H, true))
		}
		if rng.Intn(3) == 0 {
			ops = append(ops, opBBox(rng.Range(-4, 6), rng.Range(-3, 4), rng.Range(-1, 40), rng.Range(-1, 24)))
		}
		ops = append(ops, opInv(rng.Bool()), opFont(rng.Range(-1, 3), rng.Bool()), opSpc(rng.Pick([]int{0, 0, 1, 2, 3, 255})),
			opTsz(rng.Range(-1, 4), rng.Range(-1, 4)), opTcol(rng.Bool()), opWrap(rng.Bool()))
		for k := 0; k < 5; k++ {
			switch rng.Intn(3) {
			case 0:
				ops = append(ops, opChr(rng.Range(-20, 45), rng.Range(-20, 30), byte(rng.Intn(256)), rng.Bool(), rng.Bool(), rng.Range(-1, 4), rng.Range(-1, 4)))
			case 1:
				ops = append(ops, opCur(rng.Range(-10, 40), rng.Range(-10, 24)), opTxt(randText(rng, rng.Range(0, 8))))
			default:
				ops = append(ops, opTxt(randText(rng, rng.Range(0, 5))))
			}
		}
		runSeq(W, H, ops)
	}
	// 6. random op sequences on canvases up to 64x64, coordinates far outside
	ns := 400
	if thorough {
		ns = 8000
	}
	for n := 0; n < ns; n++ {
		W, H := rng.Range(0, 64), rng.Range(0, 64)
		ln := rng.Range(1, 30)
		var ops []mop
		for k := 0; k < ln; k++ {
			ops = append(ops, randOp(rng, W, H))
		}
		runSeq(W, H, ops)
	}
	// 7. canvases created from a caller's buffer (CreateFromBytes): padding bits set, every op kind,
	//    full-canvas and partial fills / clears in particular
	nf := 600
	if thorough {
		nf = 6000
	}
	for n := 0; n < nf; n++ {
		W, H := rng.Range(0, 40), rng.Range(0, 12)
		if n%3 == 0 {
			W = rng.Pick([]int{1, 3, 7, 9, 12, 15, 17, 20, 33})
		}
		init := rng.Bytes((W + 7) / 8 * H)
		if n%4 == 0 {
			for i := range init {
				init[i] = 0xFF
			}
		}
		var ops []mop
		if rng.Intn(3) == 0 {
			ops = append(ops, opBBox(rng.Range(-3, 3), rng.Range(-2, 2), rng.Range(W-2, W+40), rng.Range(H-2, H+40)))
		}
		if rng.Bool() {
			ops = append(ops, opInv(rng.Bool()))
		}
		// full-canvas and oversize fills with both colours, then arbitrary ops
		ops = append(ops, opFR(0, 0, W, H, rng.Bool()), opFR(-2, -2, W+4, H+4, rng.Bool()), opFR(0, 0, W, H, false), opFR(0, 0, W, H, true),
			opHL(0, rng.Range(0, H), W, rng.Bool()), opHL(-1, rng.Range(0, H), W+9, rng.Bool()), opFRR(0, 0, W, H, rng.Range(0, 3), rng.Bool()))
		for k := rng.Range(0, 8); k > 0; k-- {
			ops = append(ops, randOp(rng, W, H))
		}
		// shuffle lightly: start position random
		st := rng.Intn(len(ops))
		ops = append(ops[st:], ops[:st]...)
		runSeqFrom(W, H, init, ops)
	}
	// 7b. byte-ALIGNED geometry under a bounding box that reaches beyond the canvas (seed C16-7: a bytewise
	//     fast path for opaque bitmaps tests containment in the box only and lets a bitmap that straddles
	//     the canvas edge wrap onto the next row): bitmaps / fills / lines whose x and width are multiples
	//     of 8, every flag combination, boxes wider and higher than the canvas and starting at -8, -16
	for _, W := range []int{12, 16, 20, 24} {
		for _, H := range []int{3, 6} {
			for _, bx := range []int{0, -8, -16, 8} {
				for _, by := range []int{0, -2} {
					var ops []mop
					ops = append(ops, opBBox(bx, by, W+16-bx, H+8-by))
					for _, w := range []int{8, 16, 24} {
						for x := -8; x <= W+8; x += 8 {
							fl := rng.Intn(8)
							bm := make([]byte, w/8*2)
							for i := range bm {
								bm[i] = byte(rng.Pick([]int{0xFF, 0xFF, 0xA5, 0x81}))
							}
							ops = append(ops, opBM(x-bx, rng.Range(-1, H-1)-by, bm, w, 2, fl&1 != 0, fl&2 != 0, true),
								opBM(x-bx, rng.Range(0, H)-by, bm, w, 2, true, false, fl&4 != 0))
							if !thorough && len(ops) > 40 {
								break
							}
						}
						ops = append(ops, opFR(rng.Pick([]int{-8, 0, 8, 16})-bx, -by, w, H, rng.Bool()), opHL(rng.Pick([]int{0, 8, 16})-bx, rng.Range(0, H)-by, W+8, rng.Bool()))
					}
					c16stats["aligned-oversize-bbox"]++
					chunked(W, H, ops[:1], ops[1:], 12)
					init := rng.Bytes((W + 7) / 8 * H)
					runSeqFrom(W, H, init, ops[:minInt(len(ops), 14)])
				}
			}
		}
	}
	// 7c. CreateFromBytes over a slice LONGER than the canvas needs (seed C16-8: a pixel clipped only by
	//     the bounding box and the buffer length reaches the bytes behind the canvas): the tail must never
	//     change, whatever the bounding box
	for n := 0; n < nf/3; n++ {
		W, H := rng.Range(1, 24), rng.Range(1, 8)
		init := rng.Bytes((W+7)/8*H + rng.Range(1, 9))
		ops := []mop{opBBox(rng.Range(-2, 2), rng.Range(-2, 2), W+rng.Range(0, 20), H+rng.Range(1, 12)),
			opFR(0, 0, W+4, H+12, true), opVL(rng.Range(0, W), rng.Range(-2, H), H+9, rng.Bool()), opPixel(rng.Range(0, W), H+rng.Range(0, 3), true)}
		for k := rng.Range(0, 6); k > 0; k-- {
			ops = append(ops, randOp(rng, W, H+4))
		}
		c16stats["from-long-bytes"]++
		runSeqFrom(W, H, init, ops)
	}
	// 8. a USED object: drawn on with arbitrary settings at another size, then re-initialised with
	//    NewImage(W, H); the sequence first sets the four settings NewImage does not reset (inversion,
	//    cursor, text colour, spacing) and must then behave like on a fresh canvas - anything else the
	//    object remembered (clip limits, cached geometry, a stale buffer) shows as a frame violation
	nu := 400
	if thorough {
		nu = 4000
	}
	used := &mono.MonoImg{}
	for n := 0; n < nu; n++ {
		W0, H0 := rng.Range(0, 70), rng.Range(0, 20)
		used.NewImage(W0, H0)
		func() {
			defer func() { recover() }()
			for k := rng.Range(1, 6); k > 0; k-- {
				randOp(rng, W0, H0).apply(used)
			}
			used.SetBoundingBox(rng.Range(-5, 20), rng.Range(-5, 9), rng.Range(-3, 40), rng.Range(-3, 20))
		}()
		W, H := rng.Range(0, 40), rng.Range(0, 12)
		if n%3 == 0 {
			W = rng.Pick([]int{1, 7, 8, 9, 16, 17, 33})
		}
		// the LAST thing drawn on the old canvas and the FIRST thing drawn on the new one lie on the same
		// row (seed C16-9: a row offset remembered across re-initialisation points into the old stride)
		row := rng.Range(0, maxInt(1, minInt(H0, H))-1)
		func() {
			defer func() { recover() }()
			used.SetBoundingBox(0, 0, W0, H0)
			used.InvertPixels(false)
			if n%2 == 0 {
				used.DrawPixel(rng.Range(0, maxInt(1, W0)-1), row, true)
			} else {
				used.DrawFastHLine(0, row, W0, true)
			}
		}()
		used.NewImage(W, H)
		ops := []mop{opInv(false), opCur(rng.Range(0, 5), rng.Range(0, 3)), opTcol(rng.Bool()), opSpc(rng.Range(0, 3))}
		if n%2 == 0 {
			ops = append(ops, opPixel(rng.Range(0, maxInt(1, W)-1), row, true), opHL(-2, row, W+5, true))
		} else {
			ops = append(ops, opHL(rng.Range(-3, 2), row, W, true), opVL(rng.Range(0, maxInt(1, W)-1), row, 3, true))
		}
		ops = append(ops, opInv(rng.Intn(4) == 0), opFR(0, 0, W, H, rng.Bool()), opHL(-1, rng.Range(0, H), W+9, rng.Bool()), opPixel(W-1, H-1, true), opPixel(W, 0, true))
		for k := rng.Range(2, 10); k > 0; k-- {
			ops = append(ops, randOp(rng, W, H))
		}
		c16stats["used-object"]++
		runSeqOn(used, W, H, ops)
	}
	// 9. pairs of shape operations with the inversion flag and the colour varied independently around
	// each (2^4 x 9 x 9 on two canvases): requested colour and EFFECTIVE colour are different things
	// (seed C16-12: a "canvas still blank" shortcut in FillRect reset by the requested colour only -
	// invert, draw with colour false, un-invert, clear: the clear is skipped)
	for _, dim := range [][2]int{{16, 8}, {21, 5}} {
		W, H := dim[0], dim[1]
		shape := func(k int, c bool, second bool) mop {
			if second { // the second shape covers the first one's footprint
				switch k {
				case 0:
					return opPixel(3, 2, c)
				case 1:
					return opHL(-1, 2, W+3, c)
				case 2:
					return opVL(3, -1, H+2, c)
				case 3:
					return opFR(0, 0, W, H, c)
				case 4:
					return opFR(2, 1, 9, 3, c)
				case 5:
					return opRR(1, 0, W-2, H, 2, c)
				case 6:
					return opFRR(0, 0, W, H, 2, c)
				case 7:
					return opCH(5, 3, 3, 15, c)
				default:
					return opBM(0, 0, []byte{0xff, 0xff, 0xff, 0xff, 0xff, 0xff, 0xff, 0xff}, 16, 4, c, false, true)
				}
			}
			switch k {
			case 0:
				return opPixel(3, 2, c)
			case 1:
				return opHL(1, 2, 7, c)
			case 2:
				return opVL(3, 0, 4, c)
			case 3:
				return opFR(0, 0, W, H, c)
			case 4:
				return opFR(2, 1, 5, 2, c)
			case 5:
				return opRR(1, 1, 8, 4, 1, c)
			case 6:
				return opFRR(1, 1, 8, 4, 1, c)
			case 7:
				return opCH(4, 2, 2, 15, c)
			default:
				return opBM(1, 1, []byte{0xa5, 0x5a, 0xff}, 8, 3, c, false, false)
			}
		}
		for m := 0; m < 16; m++ {
			for k1 := 0; k1 < 9; k1++ {
				for k2 := 0; k2 < 9; k2++ {
					ops := []mop{opInv(m&1 != 0), shape(k1, m&2 != 0, false), opInv(m&4 != 0), shape(k2, m&8 != 0, true)}
					c16stats["inv-colour-pairs"]++
					runSeq(W, H, ops)
				}
			}
		}
	}
	meta(map[string]interface{}{"property": "C16", "op_histogram": c16stats})
}

func randText(rng *Rng, n int) []byte {
	b := make([]byte, n)
	for i := range b {
		switch rng.Intn(10) {
		case 0:
			b[i] = byte(rng.Intn(256))
		case 1:
			b[i] = byte(rng.Pick([]int{10, 13, 0, 31, 127, 128, 196, 138, 255, 0xC4, 0x8A}))
		default:
			b[i] = byte(rng.Range(32, 126))
		}
	}
	return b
}

func randCoord(rng *Rng, dim int) int {
	switch rng.Intn(8) {
	case 0:
		return rng.Range(-300, 400)
	case 1:
		return rng.Pick([]int{-17, -16, -9, -8, -7, -1, 0, dim - 1, dim, dim + 1, dim + 7, dim + 8})
	default:
		return rng.Range(-4, dim+4)
	}
}
func randSize(rng *Rng, dim int) int {
	switch rng.Intn(6) {
	case 0:
		return rng.Range(-5, 0)
	case 1:
		return rng.Range(dim, dim+300)
	default:
		return rng.Range(0, dim+2)
	}
}

func randOp(rng *Rng, W, H int) mop {
	x, y := randCoord(rng, W), randCoord(rng, H)
	c := rng.Bool()
	switch rng.Intn(19) {
	case 0, 1:
		return opPixel(x, y, c)
	case 2:
		return opHL(x, y, randSize(rng, W), c)
	case 3:
		return opVL(x, y, randSize(rng, H), c)
	case 4:
		return opFR(x, y, randSize(rng, W)%70, randSize(rng, H)%70, c)
	case 5:
		return opRR(x, y, randSize(rng, W), randSize(rng, H), rng.Range(-1, 12), c)
	case 6:
		return opFRR(x, y, randSize(rng, W)%70, randSize(rng, H)%70, rng.Range(-1, 12), c)
	case 7:
		return opCH(x, y, rng.Range(-2, 40), rng.Intn(16), c)
	case 8:
		return opFCH(x, y, rng.Range(-2, 30), rng.Intn(4), rng.Range(-20, 40), c)
	case 9:
		w, h := rng.Range(0, 30), rng.Range(0, 20)
		n := rng.Intn((w+7)/8*h + 2)
		if rng.Intn(3) == 0 { // far fewer bytes than declared (several whole rows missing), or far more
			n = rng.Pick([]int{0, 1, (w + 7) / 8, (w + 7) / 8 * h / 2, (w+7)/8*h + 40})
		}
		return opBM(x, y, rng.Bytes(n), w, h, c, rng.Bool(), rng.Bool())
	case 10:
		return opChr(x, y, byte(rng.Intn(256)), c, rng.Bool(), rng.Range(0, 4), rng.Range(0, 4))
	case 11:
		return opTxt(randText(rng, rng.Range(0, 10)))
	case 12:
		return opBBox(randCoord(rng, W), randCoord(rng, H), randSize(rng, W), randSize(rng, H))
	case 13:
		return opInv(c)
	case 14:
		return opFont(rng.Range(0, 3), rng.Bool())
	case 15:
		return opCur(x, y)
	case 16:
		return opTsz(rng.Range(0, 4), rng.Range(0, 4))
	case 17:
		return opTcol(c)
	default:
		if rng.Bool() {
			return opSpc(rng.Range(0, 4))
		}
		return opWrap(c)
	}
}

// ---- replay: re-run the implementation on the ops of a (seq W H (ops) ...) case ----
func decodeOp(n *Node) mop {
	k := n.Kids
	a := func(i int) int { return k[i].Int() }
	b := func(i int) bool { return k[i].Bool() }
	switch k[0].Atom {
	case "px":
		return opPixel(a(1), a(2), b(3))
	case "hl":
		return opHL(a(1), a(2), a(3), b(4))
	case "vl":
		return opVL(a(1), a(2), a(3), b(4))
	case "fr":
		return opFR(a(1), a(2), a(3), a(4), b(5))
	case "rr":
		return opRR(a(1), a(2), a(3), a(4), a(5), b(6))
	case "frr":
		return opFRR(a(1), a(2), a(3), a(4), a(5), b(6))
	case "ch":
		return opCH(a(1), a(2), a(3), a(4), b(5))
	case "fch":
		return opFCH(a(1), a(2), a(3), a(4), a(5), b(6))
	case "bm":
		return opBM(a(1), a(2), k[3].Bytes(), a(4), a(5), b(6), b(7), b(8))
	case "chr":
		return opChr(a(1), a(2), byte(a(3)), b(4), b(5), a(6), a(7))
	case "txt":
		return opTxt(k[1].Bytes())
	case "bbox":
		return opBBox(a(1), a(2), a(3), a(4))
	case "inv":
		return opInv(b(1))
	case "font":
		return opFont(a(1), b(2))
	case "cur":
		return opCur(a(1), a(2))
	case "tsz":
		return opTsz(a(1), a(2))
	case "tcol":
		return opTcol(b(1))
	case "spc":
		return opSpc(a(1))
	case "wrap":
		return opWrap(b(1))
	}
	panic(fmt.Sprintf("unknown op %s", k[0].Atom))
}

func replayC16(line string) {
	n := parseSexp(line)
	if n != nil && n.IsList && len(n.Kids) >= 5 && n.Kids[0].Atom == "seqb" {
		var ops []mop
		for _, o := range n.Kids[4].Kids {
			ops = append(ops, decodeOp(o))
		}
		runSeqFrom(n.Kids[1].Int(), n.Kids[2].Int(), n.Kids[3].Bytes(), ops)
		return
	}
	if n == nil || !n.IsList || len(n.Kids) < 4 || n.Kids[0].Atom != "seq" {
		return
	}
	var ops []mop
	for _, o := range n.Kids[3].Kids {
		ops = append(ops, decodeOp(o))
	}
	runSeq(n.Kids[1].Int(), n.Kids[2].Int(), ops)
}
