package main

import (
	"bytes"
	"fmt"
	"image"
	"image/color"
	"image/png"
	"io"

	log "github.com/s00500/env_logger"
	"github.com/sirupsen/logrus"

	helpers "github.com/SKAARHOJ/rawpanel-lib"
	mono "github.com/SKAARHOJ/rawpanel-lib/ibeam_lib_monogfx"
	rwp "github.com/SKAARHOJ/rawpanel-lib/ibeam_rawpanel"
)

func init() {
	props["C17"] = genC17
	replays["C17"] = replayC17
	// the library logs (short mono data, PNG encoder errors) on STDOUT through env_logger;
	// keep the case stream clean
	l := logrus.New()
	l.SetOutput(io.Discard)
	l.SetLevel(logrus.PanicLevel)
	log.ConfigureAllLoggers(l, "")
}

var c17hist = map[string]map[string]int{}
var c17used *mono.MonoImg

func c17count(k, v string) {
	m, ok := c17hist[k]
	if !ok {
		m = map[string]int{}
		c17hist[k] = m
	}
	m[v]++
}

// pixels of any image as image.RGBA would store them, row-major from the image's Min
func c17pix(img image.Image) Sx {
	b := img.Bounds()
	w, h := b.Dx(), b.Dy()
	out := make([]byte, 0, 4*w*h)
	for y := b.Min.Y; y < b.Max.Y; y++ {
		for x := b.Min.X; x < b.Max.X; x++ {
			c := color.RGBAModel.Convert(img.At(x, y)).(color.RGBA)
			out = append(out, c.R, c.G, c.B, c.A)
		}
	}
	return L(w, h, out)
}

func c17guard(f func() Sx) (res Sx) {
	defer func() {
		if r := recover(); r != nil {
			res = Sym("panic")
		}
	}()
	return f()
}

// one step on a given object: CreateFromBytes, colours (1000 = leave as initialised), exports
const c17leave = 1000

func c17monoStep(m *mono.MonoImg, W, H int, data []byte, pc, bc int) (obs []Sx) {
	return c17monoStepBack(m, nil, nil, W, H, data, pc, bc)
}

// backF / backT: the objects that receive CreateFromImage(imgF / imgT); nil = a fresh object each time.
// In a history they are REUSED from step to step, so that they already hold a bitmap (possibly a larger
// one, possibly all set) when the next image is loaded into them (seed C17-8: a buffer re-sliced instead
// of allocated keeps the old bits, the conversion ORs the new ones in).
func c17monoStepBack(m, backF, backT *mono.MonoImg, W, H int, data []byte, pc, bc int) (obs []Sx) {
	defer func() {
		if r := recover(); r != nil {
			obs = []Sx{Sym("panic")}
		}
	}()
	err := m.CreateFromBytes(W, H, append([]byte{}, data...))
	if pc != c17leave {
		m.SetOLEDPixelColor(pc)
	}
	if bc != c17leave {
		m.SetOLEDBckgColor(bc)
	}
	buf := append([]byte{}, m.GetImgSlice()...)
	rgb := append([]byte{}, m.GetImgSliceRGB()...)
	gray := append([]byte{}, m.GetImgSliceGray()...)
	imgF := m.ConvertToImage(false)
	imgT := m.ConvertToImage(true)
	back := func(b *mono.MonoImg, src image.Image) Sx {
		return c17guard(func() Sx {
			if b == nil {
				b = &mono.MonoImg{}
			}
			b.CreateFromImage(src)
			return L(b.Width, b.Height, append([]byte{}, b.GetImgSlice()...))
		})
	}
	return []Sx{err == nil, int(m.OLEDPixelColor), int(m.OLEDBckgColor), buf, rgb, gray, c17pix(imgF), c17pix(imgT), back(backF, imgF), back(backT, imgT)}
}

// ---- (mono W H #data pc bc | ...) ----
func c17mono(W, H int, data []byte, pc, bc int) {
	obs := c17monoStep(&mono.MonoImg{}, W, H, data, pc, bc)
	emit(append(L(Sym("mono"), W, H, data, pc, bc), obs...))
}

// ---- (monoh ((W H #data pc bc) ...) ((obs...) ...)) : a HISTORY of steps on ONE MonoImg object ----
// (seed C17-5: derived values cached on the object survive the re-initialisation done by the next
// CreateFromBytes / NewImage; only visible when the object is used a 2nd / 3rd time and the colours
// are NOT set again after the re-initialisation)
type c17step struct {
	W, H   int
	data   []byte
	pc, bc int
}

func c17monoh(steps []c17step) {
	m := &mono.MonoImg{}
	backF, backT := &mono.MonoImg{}, &mono.MonoImg{}
	backT.NewImage(40, 12) // starts out holding a larger, fully set bitmap
	backT.FillRect(0, 0, 40, 12, true)
	var sx, obs []Sx
	for _, st := range steps {
		sx = append(sx, Sx(L(st.W, st.H, st.data, st.pc, st.bc)))
		obs = append(obs, Sx(c17monoStepBack(m, backF, backT, st.W, st.H, st.data, st.pc, st.bc)))
	}
	emit(L(Sym("monoh"), sx, obs))
}

// ---- (gfx ty W H #data tw th | png direct cimg) ----
// PNG bytes returned by earlier calls are kept (with a private copy) and compared again after later calls
// (seed C17-9: the returned slice shares memory with a pooled buffer that the next call overwrites); when
// they have changed, the EARLIER case is emitted once more with what those bytes decode to now
type c17keptPng struct {
	head         []Sx
	direct, cimg Sx
	b, copy      []byte
}

var c17pngs []*c17keptPng

func c17decodePng(b []byte) Sx {
	img, derr := png.Decode(bytes.NewReader(b))
	if derr != nil {
		return L(Sym("pngerr"), len(b))
	}
	return c17pix(img)
}

func c17gfx(ty, W, H int, data []byte, tw, th int) {
	g := &rwp.HWCGfx{ImageType: rwp.HWCGfx_ImageTypeE(ty), W: uint32(W), H: uint32(H), ImageData: append([]byte{}, data...)}
	var kept *c17keptPng
	defer func() {
		for _, k := range c17pngs {
			if !bytes.Equal(k.b, k.copy) {
				emit(append(append([]Sx{}, k.head...), c17guard(func() Sx { return c17decodePng(k.b) }), k.direct, k.cimg))
				c17count("gfx", "earlier-png-altered")
				k.copy = append([]byte{}, k.b...)
			}
		}
		if kept != nil {
			c17pngs = append(c17pngs, kept)
			if len(c17pngs) > 3 {
				c17pngs = c17pngs[1:]
			}
		}
	}()
	pngObs := c17guard(func() Sx {
		b, err := helpers.ConvertGfxStateToPngBytes(&rwp.HWCState{HWCGfx: g})
		if err != nil {
			return L(Sym("err"))
		}
		kept = &c17keptPng{b: b, copy: append([]byte{}, b...)}
		img, derr := png.Decode(bytes.NewReader(b))
		if derr != nil {
			return L(Sym("pngerr"), len(b))
		}
		return c17pix(img)
	})
	direct := c17guard(func() Sx { return c17pix(helpers.RwpImgToImage(g, tw, th)) })
	cimg := c17guard(func() Sx {
		switch ty {
		case 1:
			return c17pix(helpers.CreateImgObjectFromRGBBytes(W, H, g.ImageData))
		case 2:
			return c17pix(helpers.CreateImgObjectFromGrayBytes(W, H, g.ImageData))
		}
		return L(Sym("none"))
	})
	if kept != nil {
		kept.head, kept.direct, kept.cimg = L(Sym("gfx"), ty, W, H, data, tw, th), direct, cimg
	}
	emit(L(Sym("gfx"), ty, W, H, data, tw, th, pngObs, direct, cimg))
}

func c17col(c int) {
	obs := c17guard(func() Sx {
		m := &mono.MonoImg{}
		m.NewImage(1, 1)
		m.SetOLEDPixelColor(c)
		m.SetOLEDBckgColor(c)
		return L(int(m.OLEDPixelColor), int(m.OLEDBckgColor))
	})
	if l, ok := obs.([]Sx); ok {
		emit(append(L(Sym("col"), c), l...))
	} else {
		emit(L(Sym("col"), c, obs))
	}
}

func c17g16(start int) {
	out := make([]byte, 256)
	for k := range out {
		out[k] = mono.RGB16BitToGray(uint16(start + k))
	}
	emit(L(Sym("g16"), start, out))
}

func c17fromimg(W, H int, pix []byte) {
	src := image.NewRGBA(image.Rect(0, 0, W, H))
	copy(src.Pix, pix)
	obs := c17guard(func() Sx {
		b := c17used // an object that was used before: CreateFromImage must not depend on what it held
		if b == nil || W*H%3 == 0 {
			b = &mono.MonoImg{}
		}
		b.CreateFromImage(src)
		c17used = b
		return L(b.Width, b.Height, append([]byte{}, b.GetImgSlice()...))
	})
	if l, ok := obs.([]Sx); ok {
		emit(append(L(Sym("fromimg"), W, H, pix), l...))
	} else {
		emit(L(Sym("fromimg"), W, H, pix, obs))
	}
}

// a source whose bounds do not start at the origin (a SubImage crop): the canvas is Max.X x Max.Y, the
// pixels left of / above the crop read as transparent black - the same case as the full grid with the
// outside zeroed (seed C16-16: the row stride taken from Bounds().Dx() while the size comes from Max)
func c17fromsub(x0, y0, x1, y1 int, pix []byte) {
	big := image.NewRGBA(image.Rect(0, 0, x1, y1))
	copy(big.Pix, pix)
	src := big.SubImage(image.Rect(x0, y0, x1, y1))
	seen := make([]byte, len(pix))
	for y := 0; y < y1; y++ {
		for x := 0; x < x1; x++ {
			if x >= x0 && y >= y0 {
				copy(seen[4*(y*x1+x):4*(y*x1+x)+4], pix[4*(y*x1+x):4*(y*x1+x)+4])
			}
		}
	}
	obs := c17guard(func() Sx {
		b := &mono.MonoImg{}
		b.CreateFromImage(src)
		// the canvas must also be a canvas: draw its last pixel and one of another row, as the drawing code addresses them
		return L(b.Width, b.Height, append([]byte{}, b.GetImgSlice()...))
	})
	if l, ok := obs.([]Sx); ok {
		emit(append(L(Sym("fromimg"), x1, y1, seen), l...))
	} else {
		emit(L(Sym("fromimg"), x1, y1, seen, obs))
	}
}

func c17pattern(rng *Rng, n int, kind int) []byte {
	b := make([]byte, n)
	for i := range b {
		switch kind {
		case 0:
			b[i] = 0
		case 1:
			b[i] = 0xFF
		case 2:
			b[i] = 0xAA >> uint(i&1)
		case 3:
			b[i] = byte(rng.Pick([]int{0x80, 0x01, 0x0F, 0xF0, 0x7E}))
		default:
			b[i] = byte(rng.U64())
		}
	}
	return b
}

func c17need(ty, W, H int) int {
	switch ty {
	case 1:
		return 2 * W * H
	case 2:
		return (W*H + 1) / 2
	}
	return (W + 7) / 8 * H
}

func c17lenClass(rng *Rng, need int, k int) (int, string) {
	switch k {
	case 0:
		return 0, "empty"
	case 1:
		return 1, "one"
	case 2:
		if need > 0 {
			return need - 1, "need-1"
		}
		return 0, "empty"
	case 3:
		return need, "need"
	case 4:
		return need + 1, "need+1"
	case 5:
		return 2 * need, "2*need"
	}
	if need > 0 {
		return rng.Intn(need), "short-random"
	}
	return 0, "empty"
}

func genC17(tier string, rng *Rng) {
	thorough := tier == "thorough"
	// 1. colour setters: all 64 six-bit colours and arguments outside that range
	for c := -4; c < 72; c++ {
		c17col(c)
	}
	for _, c := range []int{255, 256, 1 << 20, -64, -1 << 40, 0x3F3F} {
		c17col(c)
	}
	// 2. RGB16BitToGray on all 65536 colours
	for s := 0; s < 65536; s += 256 {
		c17g16(s)
	}
	// 3. mono images: all canvas sizes 0..17 x 0..9, extremal and random bit patterns
	for W := 0; W <= 17; W++ {
		for H := 0; H <= 9; H++ {
			need := (W + 7) / 8 * H
			for kind := 0; kind < 6; kind++ {
				if !thorough && kind == 5 && (W+H)%2 == 1 {
					continue
				}
				pc, bc := rng.Intn(64), rng.Intn(64)
				if kind < 2 { // extremal colours with extremal patterns
					pc, bc = 63*kind, 63*(1-kind)
				}
				c17count("mono_data", "exact")
				c17mono(W, H, c17pattern(rng, need, kind), pc, bc)
			}
			// data longer / shorter than wib*H (CreateFromBytes keeps the whole slice / rejects)
			c17count("mono_data", "longer")
			c17mono(W, H, c17pattern(rng, need+1+rng.Intn(4), 5), rng.Intn(64), rng.Intn(64))
			if need > 0 {
				c17count("mono_data", "shorter")
				c17mono(W, H, c17pattern(rng, rng.Intn(need), 5), rng.Intn(64), rng.Intn(64))
			}
		}
	}
	// every pixel/background colour pair class: all 64 x 64 on a tiny canvas (thorough) / one axis each (quick)
	for pc := 0; pc < 64; pc++ {
		for bc := 0; bc < 64; bc++ {
			if thorough || pc == bc || pc == 63-bc || bc == 0 || pc == 21 {
				c17mono(4, 2, c17pattern(rng, 2, 5), pc, bc)
				c17count("mono_data", "colour-sweep")
			}
		}
	}
	// histories on one object: colours set / left as initialised in every combination, sizes changing
	nh := 250
	if thorough {
		nh = 2500
	}
	for i := 0; i < nh; i++ {
		n := rng.Range(2, 5)
		var steps []c17step
		for k := 0; k < n; k++ {
			W, H := rng.Range(0, 14), rng.Range(0, 6)
			if rng.Intn(3) == 0 {
				W = 2 * rng.Range(1, 8)
			}
			pc, bc := rng.Intn(64), rng.Intn(64)
			switch (i + k) % 4 { // which colours are set again after the re-initialisation
			case 1:
				pc = c17leave
			case 2:
				bc = c17leave
			case 3:
				if k > 0 {
					pc, bc = c17leave, c17leave
				}
			}
			steps = append(steps, c17step{W, H, c17pattern(rng, (W+7)/8*H, rng.Range(0, 5)), pc, bc})
		}
		c17count("mono_data", "history")
		c17monoh(steps)
	}
	nm := 600
	if thorough {
		nm = 3000
	}
	for n := 0; n < nm; n++ {
		W, H := rng.Range(0, 72), rng.Range(0, 40)
		if thorough && rng.Intn(100) == 0 {
			W, H = rng.Range(100, 300), rng.Range(60, 200)
		}
		pc, bc := rng.Intn(64), rng.Intn(64)
		if rng.Intn(10) == 0 {
			pc, bc = rng.Range(-200, 400), rng.Range(-200, 400)
		}
		c17count("mono_data", "random-size")
		c17mono(W, H, c17pattern(rng, (W+7)/8*H, rng.Range(2, 5)), pc, bc)
	}
	// 4. graphics states: three formats (and an unknown type), declared sizes, data lengths
	//    {0, 1, need-1, need, need+1, 2*need, random short}, target canvases smaller / equal / larger
	targets := func(W, H, k int) (int, int) {
		switch k {
		case 0:
			return W, H
		case 1:
			return W + 3, H + 2
		case 2:
			return maxInt(W-3, 0), maxInt(H-1, 0)
		case 3:
			return W + 8, maxInt(H-2, 0)
		}
		return rng.Range(0, W+9), rng.Range(0, H+6)
	}
	for ty := 0; ty < 3; ty++ {
		for W := 0; W <= 10; W++ {
			for H := 0; H <= 5; H++ {
				need := c17need(ty, W, H)
				for lk := 0; lk < 7; lk++ {
					ln, name := c17lenClass(rng, need, lk)
					tw, th := targets(W, H, (W+H+lk)%5)
					c17count("gfx_len", name)
					c17count("gfx_type", fmt.Sprint(ty))
					c17gfx(ty, W, H, c17pattern(rng, ln, rng.Range(1, 5)), tw, th)
					if lk == 0 && W > 0 && H > 0 {
						// content with structure: all zero, a zero prefix of every length class, a zero tail (seed
						// C17-18: a "same colour word as the previous pixel" shortcut whose initial state is word 0)
						z := make([]byte, need)
						c17gfx(ty, W, H, z, tw, th)
						for _, cut := range []int{1, 2, need / 2, need - 1} {
							if cut > 0 && cut < need {
								d := c17pattern(rng, need, 1)
								for i := 0; i < cut; i++ {
									d[i] = 0
								}
								c17gfx(ty, W, H, d, tw, th)
							}
						}
					}
				}
			}
		}
	}
	ng := 2500
	if thorough {
		ng = 20000
	}
	for n := 0; n < ng; n++ {
		ty := rng.Intn(3)
		W, H := rng.Range(0, 40), rng.Range(0, 20)
		if rng.Intn(4) == 0 {
			W = rng.Pick([]int{7, 8, 9, 15, 16, 17, 31, 32, 33})
		}
		if thorough && rng.Intn(200) == 0 {
			W, H = rng.Range(200, 300), rng.Range(100, 200)
		}
		if rng.Intn(40) == 0 {
			ty = rng.Pick([]int{3, 7})
		}
		need := c17need(ty, W, H)
		ln, name := c17lenClass(rng, need, rng.Intn(7))
		tw, th := targets(W, H, rng.Intn(5))
		c17count("gfx_len", name)
		c17count("gfx_type", fmt.Sprint(ty))
		c17gfx(ty, W, H, c17pattern(rng, ln, rng.Range(1, 5)), tw, th)
	}
	// 5. CreateFromImage on arbitrary RGBA images (threshold on the 16-bit red value)
	nf := 500
	if thorough {
		nf = 4000
	}
	for n := 0; n < nf; n++ {
		W, H := rng.Range(0, 20), rng.Range(0, 8)
		pix := make([]byte, 4*W*H)
		for i := range pix {
			if rng.Bool() {
				pix[i] = byte(rng.Pick([]int{0, 1, 127, 128, 255}))
			} else {
				pix[i] = byte(rng.U64())
			}
		}
		c17fromimg(W, H, pix)
	}
	// 5b. the same on crops with a non-zero origin
	for n := 0; n < nf/2; n++ {
		x1, y1 := rng.Range(1, 45), rng.Range(1, 10)
		x0, y0 := rng.Intn(x1), rng.Intn(y1) // a non-empty crop (an empty one has bounds (0,0)-(0,0), not Max = (x1,y1))
		if n%3 == 0 {
			x0 = rng.Pick([]int{0, 1, 7, 8, 9, 16}) % x1
		}
		pix := make([]byte, 4*x1*y1)
		for i := range pix {
			pix[i] = byte(rng.Pick([]int{0, 255, 255, 128, 127, int(rng.U64() & 255)}))
		}
		c17fromsub(x0, y0, x1, y1, pix)
	}
	meta(map[string]interface{}{"property": "C17", "input_histograms": c17hist})
}

func replayC17(line string) {
	n := parseSexp(line)
	if n == nil || !n.IsList || len(n.Kids) < 2 {
		return
	}
	k := n.Kids
	switch k[0].Atom {
	case "mono":
		if len(k) >= 6 {
			c17mono(k[1].Int(), k[2].Int(), k[3].Bytes(), k[4].Int(), k[5].Int())
		}
	case "monoh":
		if k[1].IsList {
			var steps []c17step
			for _, st := range k[1].Kids {
				if st.IsList && len(st.Kids) >= 5 {
					steps = append(steps, c17step{st.Kids[0].Int(), st.Kids[1].Int(), st.Kids[2].Bytes(), st.Kids[3].Int(), st.Kids[4].Int()})
				}
			}
			c17monoh(steps)
		}
	case "gfx":
		if len(k) >= 7 {
			c17gfx(k[1].Int(), k[2].Int(), k[3].Int(), k[4].Bytes(), k[5].Int(), k[6].Int())
		}
	case "col":
		c17col(k[1].Int())
	case "g16":
		c17g16(k[1].Int())
	case "fromimg":
		if len(k) >= 4 {
			c17fromimg(k[1].Int(), k[2].Int(), k[3].Bytes())
		}
	}
}
