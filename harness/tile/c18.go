package main

// C18: WriteDisplayTileNew.  Runs the implementation on structured text states x tile
// geometries and prints what it observed; all judging happens in the extracted Coq code.

import (
	"bytes"
	"fmt"
	"os"
	"sort"
	"strings"
	"time"

	rl "github.com/SKAARHOJ/rawpanel-lib"
	mono "github.com/SKAARHOJ/rawpanel-lib/ibeam_lib_monogfx"
	rwp "github.com/SKAARHOJ/rawpanel-lib/ibeam_rawpanel"
	"google.golang.org/protobuf/proto"
)

func init() {
	props["C18"] = genC18
	replays["C18"] = replayC18
}

// ---------------------------------------------------------------- text state
type tfont struct {
	face int32
	h, w uint32
}
type tcol struct {
	kind    int // 0 neither, 1 rgb, 2 index, 3 both
	r, g, b uint32
	idx     int32
}
type tstyle struct {
	fixed             bool
	pad, spacing, ufs uint32
}
type tst struct {
	iv, iv2         int32
	fmt, si, mi, pm int32
	ti, l1, l2      string
	solid           bool
	scale           *[5]int32 // type rl rh ll lh
	style           *tstyle
	tfont, xfont    *tfont // only meaningful with style != nil
	pix, bg         *tcol
}

func (s tst) clone() tst {
	c := s
	if s.scale != nil {
		v := *s.scale
		c.scale = &v
	}
	if s.style != nil {
		v := *s.style
		c.style = &v
	}
	if s.tfont != nil {
		v := *s.tfont
		c.tfont = &v
	}
	if s.xfont != nil {
		v := *s.xfont
		c.xfont = &v
	}
	if s.pix != nil {
		v := *s.pix
		c.pix = &v
	}
	if s.bg != nil {
		v := *s.bg
		c.bg = &v
	}
	return c
}

func (s tst) entries() []Sx {
	e := []Sx{}
	add := func(k string, v ...Sx) { e = append(e, Sx(append([]Sx{Sym(k)}, v...))) }
	if s.iv != 0 {
		add("iv", s.iv)
	}
	if s.iv2 != 0 {
		add("iv2", s.iv2)
	}
	if s.fmt != 0 {
		add("fmt", s.fmt)
	}
	if s.si != 0 {
		add("si", s.si)
	}
	if s.mi != 0 {
		add("mi", s.mi)
	}
	if s.pm != 0 {
		add("pm", s.pm)
	}
	if s.ti != "" {
		add("ti", s.ti)
	}
	if s.solid {
		add("solid", true)
	}
	if s.l1 != "" {
		add("l1", s.l1)
	}
	if s.l2 != "" {
		add("l2", s.l2)
	}
	if s.scale != nil {
		add("scale", s.scale[0], s.scale[1], s.scale[2], s.scale[3], s.scale[4])
	}
	if s.style != nil {
		add("style", s.style.fixed, s.style.pad, s.style.spacing, s.style.ufs)
		if s.tfont != nil {
			add("tfont", s.tfont.face, s.tfont.h, s.tfont.w)
		}
		if s.xfont != nil {
			add("xfont", s.xfont.face, s.xfont.h, s.xfont.w)
		}
	}
	if s.pix != nil {
		add("pix", s.pix.kind, s.pix.r, s.pix.g, s.pix.b, s.pix.idx)
	}
	if s.bg != nil {
		add("bg", s.bg.kind, s.bg.r, s.bg.g, s.bg.b, s.bg.idx)
	}
	return e
}

func (c *tcol) proto() *rwp.Color {
	if c == nil {
		return nil
	}
	o := &rwp.Color{}
	if c.kind == 1 || c.kind == 3 {
		o.ColorRGB = &rwp.ColorRGB{Red: c.r, Green: c.g, Blue: c.b}
	}
	if c.kind == 2 || c.kind == 3 {
		o.ColorIndex = &rwp.ColorIndex{Index: rwp.ColorIndex_Colors(c.idx)}
	}
	return o
}

func (f *tfont) proto() *rwp.HWCText_TextStyle_Font {
	if f == nil {
		return nil
	}
	return &rwp.HWCText_TextStyle_Font{FontFace: rwp.HWCText_TextStyle_Font_FontFaceE(f.face), TextHeight: f.h, TextWidth: f.w}
}

func (s tst) proto(inverted bool) *rwp.HWCText {
	t := &rwp.HWCText{
		IntegerValue: s.iv, IntegerValue2: s.iv2,
		Formatting: rwp.HWCText_FormattingE(s.fmt), StateIcon: rwp.HWCText_StateIconE(s.si),
		ModifierIcon: rwp.HWCText_ModifierIconE(s.mi), PairMode: rwp.HWCText_PairModeE(s.pm),
		Title: s.ti, Textline1: s.l1, Textline2: s.l2, SolidHeaderBar: s.solid, Inverted: inverted,
		PixelColor: s.pix.proto(), BackgroundColor: s.bg.proto(),
	}
	if s.scale != nil {
		t.Scale = &rwp.HWCText_ScaleM{ScaleType: rwp.HWCText_ScaleM_ScaleTypeE(s.scale[0]), RangeLow: s.scale[1], RangeHigh: s.scale[2], LimitLow: s.scale[3], LimitHigh: s.scale[4]}
	}
	if s.style != nil {
		t.TextStyling = &rwp.HWCText_TextStyle{FixedWidth: s.style.fixed, TitleBarPadding: s.style.pad, ExtraCharacterSpacing: s.style.spacing, UnformattedFontSize: s.style.ufs,
			TextFont: s.tfont.proto(), TitleFont: s.xfont.proto()}
	}
	return t
}

func stateFromNode(n *Node) tst {
	var s tst
	if n == nil || !n.IsList {
		return s
	}
	col := func(k []*Node) *tcol {
		return &tcol{kind: k[1].Int(), r: uint32(k[2].Int()), g: uint32(k[3].Int()), b: uint32(k[4].Int()), idx: int32(k[5].Int())}
	}
	for _, e := range n.Kids {
		if e == nil || !e.IsList || len(e.Kids) < 2 {
			continue
		}
		k := e.Kids
		switch k[0].Atom {
		case "iv":
			s.iv = int32(k[1].Int())
		case "iv2":
			s.iv2 = int32(k[1].Int())
		case "fmt":
			s.fmt = int32(k[1].Int())
		case "si":
			s.si = int32(k[1].Int())
		case "mi":
			s.mi = int32(k[1].Int())
		case "pm":
			s.pm = int32(k[1].Int())
		case "ti":
			s.ti = string(k[1].Bytes())
		case "l1":
			s.l1 = string(k[1].Bytes())
		case "l2":
			s.l2 = string(k[1].Bytes())
		case "solid":
			s.solid = k[1].Bool()
		case "scale":
			if len(k) == 6 {
				s.scale = &[5]int32{int32(k[1].Int()), int32(k[2].Int()), int32(k[3].Int()), int32(k[4].Int()), int32(k[5].Int())}
			}
		case "style":
			if len(k) == 5 {
				s.style = &tstyle{k[1].Bool(), uint32(k[2].Int()), uint32(k[3].Int()), uint32(k[4].Int())}
			}
		case "tfont":
			if len(k) == 4 {
				s.tfont = &tfont{int32(k[1].Int()), uint32(k[2].Int()), uint32(k[3].Int())}
			}
		case "xfont":
			if len(k) == 4 {
				s.xfont = &tfont{int32(k[1].Int()), uint32(k[2].Int()), uint32(k[3].Int())}
			}
		case "pix":
			if len(k) == 6 {
				s.pix = col(k)
			}
		case "bg":
			if len(k) == 6 {
				s.bg = col(k)
			}
		}
	}
	return s
}

// ---------------------------------------------------------------- running the implementation
type shot struct {
	status     string // "" ok, "panic", "hang"
	w, h       int
	buf        []byte
	pixc, bckg int
	img        *mono.MonoImg
}

func render(t *rwp.HWCText, W, H, shrink, border int) shot {
	ch := make(chan shot, 1)
	go func() {
		var r shot
		defer func() {
			if e := recover(); e != nil {
				ch <- shot{status: "panic"}
			}
		}()
		img := rl.WriteDisplayTileNew(t, W, H, shrink, border)
		r.w, r.h = img.Width, img.Height
		r.buf = append([]byte{}, img.GetImgSlice()...)
		r.pixc, r.bckg = int(img.OLEDPixelColor), int(img.OLEDBckgColor)
		r.img = &img
		ch <- r
	}()
	select {
	case r := <-ch:
		return r
	case <-time.After(5 * time.Second):
		return shot{status: "hang"}
	}
}

func sameShot(a, b shot) bool {
	return a.status == b.status && a.w == b.w && a.h == b.h && a.pixc == b.pixc && a.bckg == b.bckg && bytes.Equal(a.buf, b.buf)
}

func sameSym(b bool) Sym {
	if b {
		return Sym("same")
	}
	return Sym("diff")
}

// what the call is documented to do to its argument: fill the four absent sub-messages, nothing else
func filledCopy(t *rwp.HWCText) *rwp.HWCText {
	c := proto.Clone(t).(*rwp.HWCText)
	if c.TextStyling == nil {
		c.TextStyling = &rwp.HWCText_TextStyle{}
	}
	if c.TextStyling.TextFont == nil {
		c.TextStyling.TextFont = &rwp.HWCText_TextStyle_Font{}
	}
	if c.TextStyling.TitleFont == nil {
		c.TextStyling.TitleFont = &rwp.HWCText_TextStyle_Font{}
	}
	if c.Scale == nil {
		c.Scale = &rwp.HWCText_ScaleM{}
	}
	return c
}

var c18stats = map[string]map[string]int{}

func stat(group, key string) {
	m := c18stats[group]
	if m == nil {
		m = map[string]int{}
		c18stats[group] = m
	}
	m[key]++
}

func strClass(s string) string {
	if s == "" {
		return "empty"
	}
	cls := "ascii"
	for i := 0; i < len(s); i++ {
		if s[i] == 10 {
			return "lf"
		}
		if s[i] >= 128 {
			cls = "non-ascii"
		} else if s[i] < 32 && cls == "ascii" {
			cls = "control"
		}
	}
	if cls == "ascii" && len(s) > 12 {
		return "long"
	}
	return cls
}

func recordStats(s tst, W, H, shrink, border int) {
	stat("format", fmt.Sprint(s.fmt))
	stat("pair", fmt.Sprint(s.pm))
	stat("geometry", fmt.Sprintf("%dx%d", W, H))
	stat("shrink_border", fmt.Sprintf("s%d b%d", shrink, border))
	stat("title", strClass(s.ti))
	stat("line1", strClass(s.l1))
	pres := ""
	for _, p := range []bool{s.scale != nil, s.style != nil, s.style != nil && s.tfont != nil, s.style != nil && s.xfont != nil, s.pix != nil, s.bg != nil} {
		if p {
			pres += "1"
		} else {
			pres += "0"
		}
	}
	stat("presence scale/style/tfont/xfont/pix/bg", pres)
	if s.scale != nil {
		stat("scale_type", fmt.Sprint(s.scale[0]))
		d := int64(s.scale[2]) - int64(s.scale[1])
		switch {
		case d == 0:
			stat("range", "degenerate")
		case d < 0:
			stat("range", "reversed")
		case d >= 1<<31:
			stat("range", "span>=2^31")
		default:
			stat("range", "normal")
		}
	}
	for _, c := range []*tcol{s.pix, s.bg} {
		if c != nil {
			stat("colour_kind", []string{"neither", "rgb", "index", "both"}[c.kind&3])
		}
	}
	if s.style != nil && s.tfont != nil {
		stat("text_font", fmt.Sprint(s.tfont.face))
	}
}

func runTile(s tst, W, H, shrink, border int) {
	recordStats(s, W, H, shrink, border)
	orig := s.proto(false)
	cp := proto.Clone(orig).(*rwp.HWCText)
	want := filledCopy(orig)
	r1 := render(orig, W, H, shrink, border)
	var obsN []Sx
	if r1.status != "" {
		obsN = L(Sym(r1.status))
		stat("outcome", r1.status)
	} else {
		filled := orig.TextStyling != nil && orig.TextStyling.TextFont != nil && orig.TextStyling.TitleFont != nil && orig.Scale != nil
		kept := proto.Equal(orig, want)
		// everything that is read from the first image is read NOW: the image belongs to the caller, who then
		// draws on it - a later rendering must not show that (seed C18-16: a "last tile" memo handing out an
		// image that shares its pixels with the one returned before)
		var rgb Sx = Sym("skip")
		if W*H <= 1024 {
			rgb = append([]byte{}, r1.img.GetImgSliceRGB()...)
		}
		swT, sw1, sw2, lh1, swE := r1.img.StrWidth(s.ti), r1.img.StrWidth(s.l1), r1.img.StrWidth(s.l2), int(r1.img.LineHeight()), -r1.img.StrWidth("")
		func() {
			defer func() { recover() }()
			r1.img.InvertPixels(false)
			r1.img.SetBoundingBox(0, 0, W, H)
			r1.img.FillRect(0, 0, W, H/2+1, true)
			r1.img.DrawFastHLine(0, H-1, W, true)
		}()
		r2 := render(orig, W, H, shrink, border) // same object again (now with filled sub-messages)
		// whatever the library put into the caller's object belongs to the caller, who may write to it
		// (seed C18-13: absent sub-messages filled with package-level stand-ins instead of fresh
		// allocations - harmless until someone assigns through one of them); scribble over exactly the
		// sub-messages that were absent before the first call, then render the untouched deep copy
		scribbleFont := func(f *rwp.HWCText_TextStyle_Font) {
			if f != nil {
				f.FontFace, f.TextHeight, f.TextWidth = 1, 2, 3
			}
		}
		if cp.Scale == nil && orig.Scale != nil {
			orig.Scale.ScaleType, orig.Scale.RangeLow, orig.Scale.RangeHigh, orig.Scale.LimitLow, orig.Scale.LimitHigh = 1, -5, 2000, 3, 1500
		}
		if orig.TextStyling != nil {
			if cp.TextStyling == nil {
				orig.TextStyling.FixedWidth, orig.TextStyling.TitleBarPadding, orig.TextStyling.ExtraCharacterSpacing, orig.TextStyling.UnformattedFontSize = true, 3, 2, 3
			}
			if cp.TextStyling == nil || cp.TextStyling.TextFont == nil {
				scribbleFont(orig.TextStyling.TextFont)
			}
			if cp.TextStyling == nil || cp.TextStyling.TitleFont == nil {
				scribbleFont(orig.TextStyling.TitleFont)
			}
		}
		r3 := render(cp, W, H, shrink, border) // deep copy of the original argument
		// the application edits ITS object in place and renders it again at the same geometry, nothing else in
		// between; the reference is a fresh deep copy rendered after a rendering at another geometry (so that
		// no "same as last time" shortcut can serve both)
		same3 := sameShot(r1, r3)
		func() {
			defer func() { recover() }()
			ed := proto.Clone(cp).(*rwp.HWCText)
			rl.WriteDisplayTileNew(ed, W, H, shrink, border)
			ed.Inverted = !ed.Inverted
			ed.IntegerValue ^= 5
			ed.Title += "!"
			r4 := render(ed, W, H, shrink, border)
			ref := proto.Clone(ed).(*rwp.HWCText)
			render(proto.Clone(ed).(*rwp.HWCText), W+8, H+1, shrink, border)
			r5 := render(ref, W, H, shrink, border)
			if !sameShot(r4, r5) {
				same3 = false
			}
		}()
		obsN = L(r1.w, r1.h, r1.buf, r1.pixc, r1.bckg, sameSym(sameShot(r1, r2)), sameSym(same3), filled, kept, rgb,
			swT, sw1, sw2, lh1, swE)
		stat("outcome", "ok")
	}
	ri := render(s.proto(true), W, H, shrink, border)
	var obsI []Sx
	if ri.status != "" {
		obsI = L(Sym(ri.status))
	} else {
		obsI = L(ri.buf)
	}
	emit(L(Sym("tile"), s.entries(), W, H, shrink, border, obsN, obsI))
}

func runBar(s tst, W, H, shrink, border int, vals []int32) {
	sort.Slice(vals, func(i, j int) bool { return vals[i] < vals[j] })
	stat("bar_family", fmt.Sprintf("%d values", len(vals)))
	var vs, bufs []Sx
	for _, v := range vals {
		c := s.clone()
		c.iv = v
		r := render(c.proto(false), W, H, shrink, border)
		vs = append(vs, v)
		if r.status != "" {
			bufs = append(bufs, Sym(r.status))
		} else {
			bufs = append(bufs, r.buf)
		}
	}
	c := s.clone()
	c.iv = 0
	emit(L(Sym("bar"), c.entries(), W, H, shrink, border, vs, bufs))
}

func replayC18(line string) {
	n := parseSexp(line)
	if n == nil || !n.IsList || len(n.Kids) < 6 {
		return
	}
	s := stateFromNode(n.Kids[1])
	W, H, shrink, border := n.Kids[2].Int(), n.Kids[3].Int(), n.Kids[4].Int(), n.Kids[5].Int()
	if W < 0 || H < 0 || W > 4096 || H > 4096 {
		return
	}
	switch n.Kids[0].Atom {
	case "tile":
		runTile(s, W, H, shrink, border)
	case "bar":
		var vals []int32
		if len(n.Kids) > 6 && n.Kids[6].IsList {
			for _, k := range n.Kids[6].Kids {
				vals = append(vals, int32(k.Int()))
			}
		}
		runBar(s, W, H, shrink, border, vals)
	}
}

// ---------------------------------------------------------------- generators
var gridW = []int{0, 1, 8, 31, 32, 48, 52, 64, 112, 128, 256}
var gridH = []int{0, 1, 8, 16, 24, 31, 32, 48, 64}

var strPool = []string{
	"", "A", "Ab", "Cam 1", "MASTER", "gain", "1/50", " ", " A ", "Wg", "iii", "MMMM",
	"The quick brown fox jumps over it", "0123456789012345678901234567890123456789",
	"Gr\xc3\xbcn\xc2\xb0", "\xe6\x97\xa5\xe6\x9c\xac", "\xff\xfeA", "a\xc3", "\xc4\x8a" /* U+010A: byte(rune) = 10 */, "A\nB", "\n", "A\rB",
	"\x01\x7f", "~}|{", "\xf0\x9f\x98\x80!", "\x80", "x\xe2\x82", "A\n\nB\nC",
}
var utf8Pool = []string{
	"Gr\xc3\xb6\xc3\x9fe", "T\xc3\xbcr", "\xc3\x86\xc3\x98\xc3\x85", "\xc3\xa9", "caf\xc3\xa9", "\xc2\xb0C", "5\xe2\x82\xac", "\xe6\x97\xa5\xe6\x9c\xac\xe8\xaa\x9e",
	"\xf0\x9f\x98\x80!", "a\xf0\x9f\x8e\xa5b", "A\xffB", "x\xe2\x82", "\xc3", "\x80\x81", "\xed\xa0\x80", "\xc0\xaf", "Iris", "MASTER", "Wg", " A ", "",
	"\xc3\x84\xc3\x96\xc3\x9c\xc3\xa4\xc3\xb6\xc3\xbc", "\xce\xa9 12", "n\xcc\x83",
}
var shortPool = []string{"", "A", "Ab", "Cam 1", "MASTER", "gain", "Wg", "iii", "12", "-3.5", "Iris", "PGM", "Gr\xc3\xbcn", "\xff"}

var intPool = []int32{0, 1, -1, 5, 15, 125, 375, 625, -125, 995, 999, 1000, 1005, 12345, -12345, 99999, 1234567, -2147483648, 2147483647, 50, 100, 250, 2147483, 1125, 10, -10}
var fmtPool = []int32{-1, 0, 1, 2, 3, 4, 5, 6, 7, 8, 9, 10, 11, 12, 13, 14, 100, 2147483647, -2147483648}
var idxPool = []int32{-1, 0, 1, 2, 17, 18, 19, 20, 30, 31, 32, 33, 50, 63, 2147483647, -2147483648}
var chanPool = []uint32{0, 1, 84, 85, 86, 127, 169, 170, 171, 254, 255, 256, 1000, 4294967295}

type rangeSpec struct{ rl, rh, ll, lh int32 }

var rangePool = []rangeSpec{
	{0, 100, 0, 100}, {0, 100, 10, 90}, {-100, 100, -50, 50}, {0, 1000, 0, 0}, {5, 5, 0, 0}, {0, 0, 0, 0},
	{100, 0, 0, 100}, {100, -100, -50, 50}, {-2147483648, 2147483647, 0, 0}, {-1, 2147483647, 0, 5}, {2147483647, -2147483648, 0, 0},
	{0, 2147483647, 100, 1000}, {-2147483648, 0, -5, -1}, {0, 7, 3, 5}, {0, 3, 1, 2}, {10, 20, 30, 5},
}

func pickS(r *Rng, pool []string) string { return pool[r.Intn(len(pool))] }
func pickI32(r *Rng, pool []int32) int32 { return pool[r.Intn(len(pool))] }

func randCol(r *Rng) *tcol {
	switch r.Intn(10) {
	case 0:
		return nil
	case 1:
		return &tcol{kind: 0}
	case 2:
		return &tcol{kind: 3, r: chanPool[r.Intn(len(chanPool))], g: uint32(r.Intn(256)), b: uint32(r.Intn(256)), idx: int32(r.Intn(19))}
	case 3, 4, 5:
		return &tcol{kind: 1, r: chanPool[r.Intn(len(chanPool))], g: chanPool[r.Intn(len(chanPool))], b: chanPool[r.Intn(len(chanPool))]}
	default:
		if r.Intn(4) == 0 {
			return &tcol{kind: 2, idx: pickI32(r, idxPool)}
		}
		return &tcol{kind: 2, idx: int32(r.Intn(32))}
	}
}

func randFont(r *Rng) *tfont {
	if r.Intn(6) == 0 {
		return nil
	}
	f := &tfont{face: int32(r.Intn(8)), h: uint32(r.Intn(4)), w: uint32(r.Intn(4))}
	if r.Intn(3) == 0 {
		f.h, f.w = 0, 0
	}
	if r.Intn(20) == 0 {
		f.face = pickI32(r, []int32{-1, 8, 9, 255, 2147483647, -2147483648})
	}
	if r.Intn(20) == 0 {
		f.h, f.w = uint32(4+r.Intn(60)), uint32(4+r.Intn(60)) // masked with &3 by the renderer
	}
	return f
}

// a random structured, mostly valid text state
func randState(r *Rng) tst {
	var s tst
	s.fmt = int32(r.Intn(13))
	if r.Intn(8) == 0 {
		s.fmt = pickI32(r, fmtPool)
	}
	s.iv = pickI32(r, intPool)
	if r.Intn(3) == 0 {
		s.iv = int32(r.Range(-3000, 3000))
	}
	s.iv2 = pickI32(r, intPool)
	if r.Intn(2) == 0 {
		s.pm = int32(r.Intn(5))
	}
	if r.Intn(20) == 0 {
		s.pm = pickI32(r, []int32{-1, 5, 6, 100, 2147483647, -2147483648})
	}
	if r.Intn(3) == 0 {
		s.si = int32(r.Intn(4))
	}
	if r.Intn(3) == 0 {
		s.mi = int32(r.Intn(8))
	}
	if r.Intn(30) == 0 {
		s.si, s.mi = pickI32(r, []int32{-1, 4, 100}), pickI32(r, []int32{-1, 8, 9, 100})
	}
	if r.Intn(4) != 0 {
		s.ti = pickS(r, shortPool)
	}
	if r.Intn(6) == 0 {
		s.ti = pickS(r, strPool)
	}
	s.solid = r.Bool()
	if r.Intn(3) != 0 {
		s.l1 = pickS(r, shortPool)
	}
	if r.Intn(3) == 0 {
		s.l2 = pickS(r, shortPool)
	}
	if r.Intn(8) == 0 {
		s.l1, s.l2 = pickS(r, strPool), pickS(r, strPool)
	}
	if r.Intn(3) != 0 {
		rg := rangePool[r.Intn(len(rangePool))]
		s.scale = &[5]int32{int32(r.Intn(4)), rg.rl, rg.rh, rg.ll, rg.lh}
		if r.Intn(20) == 0 {
			s.scale[0] = pickI32(r, []int32{-1, 4, 5, 2147483647, -2147483648})
		}
	}
	if r.Intn(4) != 0 {
		s.style = &tstyle{fixed: r.Intn(4) == 0, pad: uint32(r.Intn(4)), spacing: uint32(r.Intn(8)), ufs: uint32(r.Intn(6))}
		if r.Intn(3) == 0 {
			s.style.spacing = 0
		}
		if r.Intn(30) == 0 {
			s.style.ufs = []uint32{100, 4294967295}[r.Intn(2)]
		}
		s.tfont, s.xfont = randFont(r), randFont(r)
	}
	s.pix, s.bg = randCol(r), randCol(r)
	return s
}

func baseStates() []tst {
	st := func(fixed bool, pad, sp, ufs uint32) *tstyle { return &tstyle{fixed, pad, sp, ufs} }
	return []tst{
		{},
		{iv: 1234, ti: "Gain", l1: "Cam 1"},
		{iv: -125, fmt: 1, ti: "Iris", solid: true, scale: &[5]int32{1, -1000, 1000, -500, 500}},
		{iv: 50, iv2: 75, fmt: 2, pm: 1, ti: "Mix", l1: "A", l2: "B", scale: &[5]int32{2, 0, 100, 10, 90}, style: st(false, 0, 0, 0), tfont: &tfont{}, xfont: &tfont{}},
		{iv: 3200, fmt: 6, pm: 4, ti: "WB", si: 2, mi: 3, style: st(false, 2, 1, 0), tfont: &tfont{1, 1, 1}, xfont: &tfont{2, 1, 1}},
		{fmt: 10, ti: "MASTER", style: st(false, 0, 0, 2), tfont: &tfont{0, 0, 0}},
		{fmt: 11, l1: "Cam 1", l2: "PGM", style: st(false, 0, 0, 1), tfont: &tfont{1, 0, 0}},
		{fmt: 7, pm: 1, l1: "AB", l2: "C", style: st(false, 0, 0, 0), tfont: &tfont{0, 2, 0}}, // the F10 shape
		{iv: 7, fmt: 5, ti: "Shutter", l1: "s", si: 1, scale: &[5]int32{3, 0, 10, 2, 8}},
		{iv: 40, iv2: -3, fmt: 3, pm: 2, l1: "L", l2: "R", si: 3, mi: 7, scale: &[5]int32{1, 100, 0, 0, 0}, pix: &tcol{kind: 2, idx: 4}, bg: &tcol{kind: 1, r: 0, g: 0, b: 255}},
	}
}

// one-factor-at-a-time variations of a base state: every value of every feature
func sweeps(b tst) []tst {
	var out []tst
	add := func(f func(s *tst)) {
		c := b.clone()
		f(&c)
		out = append(out, c)
	}
	ensureStyle := func(s *tst) {
		if s.style == nil {
			s.style = &tstyle{}
		}
		if s.tfont == nil {
			s.tfont = &tfont{}
		}
		if s.xfont == nil {
			s.xfont = &tfont{}
		}
	}
	for _, f := range fmtPool {
		f := f
		add(func(s *tst) { s.fmt = f })
	}
	for _, v := range intPool {
		v := v
		add(func(s *tst) { s.iv = v; s.iv2 = -v })
		add(func(s *tst) { s.iv = v; s.fmt = 1 })
	}
	for pm := int32(-1); pm <= 5; pm++ {
		pm := pm
		add(func(s *tst) { s.pm = pm })
		add(func(s *tst) { s.pm = pm; s.l1 = "Left"; s.l2 = "Right" })
	}
	for si := int32(-1); si <= 4; si++ {
		for mi := int32(-1); mi <= 8; mi++ {
			si, mi := si, mi
			add(func(s *tst) { s.si, s.mi = si, mi })
		}
	}
	for _, str := range strPool {
		str := str
		add(func(s *tst) { s.ti = str })
		add(func(s *tst) { s.l1 = str })
		add(func(s *tst) { s.l2 = str; s.pm = 1 })
	}
	for sct := int32(-1); sct <= 4; sct++ {
		for _, rg := range rangePool {
			sct, rg := sct, rg
			add(func(s *tst) { s.scale = &[5]int32{sct, rg.rl, rg.rh, rg.ll, rg.lh} })
		}
	}
	for face := int32(0); face < 8; face++ {
		for sz := uint32(0); sz < 4; sz++ {
			face, sz := face, sz
			add(func(s *tst) { ensureStyle(s); s.tfont.face, s.tfont.h, s.tfont.w = face, sz, (sz+1)&3 })
			add(func(s *tst) { ensureStyle(s); s.xfont.face, s.xfont.h, s.xfont.w = face, (sz+2)&3, sz })
		}
	}
	for pad := uint32(0); pad < 4; pad++ {
		for sp := uint32(0); sp < 8; sp++ {
			pad, sp := pad, sp
			add(func(s *tst) { ensureStyle(s); s.style.pad, s.style.spacing = pad, sp })
		}
	}
	for ufs := uint32(0); ufs < 6; ufs++ {
		ufs := ufs
		add(func(s *tst) { ensureStyle(s); s.style.ufs = ufs })
		add(func(s *tst) { ensureStyle(s); s.style.ufs = ufs; s.style.fixed = true })
	}
	for idx := int32(-1); idx <= 32; idx++ {
		idx := idx
		add(func(s *tst) { s.pix = &tcol{kind: 2, idx: idx} })
		add(func(s *tst) { s.bg = &tcol{kind: 2, idx: idx} })
	}
	for _, c := range chanPool {
		c := c
		add(func(s *tst) { s.pix = &tcol{kind: 1, r: c, g: 255 - (c & 255), b: 85} })
		add(func(s *tst) { s.bg = &tcol{kind: 1, r: 170, g: c, b: c} })
	}
	add(func(s *tst) { s.pix = &tcol{kind: 0}; s.bg = &tcol{kind: 3, r: 255, idx: 1} })
	// presence patterns of the optional sub-messages
	for m := 0; m < 64; m++ {
		m := m
		add(func(s *tst) {
			ensureStyle(s)
			if s.scale == nil {
				s.scale = &[5]int32{1, 0, 100, 10, 90}
			}
			if s.pix == nil {
				s.pix = &tcol{kind: 2, idx: 5}
			}
			if s.bg == nil {
				s.bg = &tcol{kind: 2, idx: 10}
			}
			if m&1 != 0 {
				s.scale = nil
			}
			if m&2 != 0 {
				s.style = nil
			}
			if m&4 != 0 {
				s.tfont = nil
			}
			if m&8 != 0 {
				s.xfont = nil
			}
			if m&16 != 0 {
				s.pix = nil
			}
			if m&32 != 0 {
				s.bg = nil
			}
		})
	}
	return out
}

type geo struct{ W, H, shrink, border int }

func allGeos() []geo {
	var gs []geo
	for _, W := range gridW {
		for _, H := range gridH {
			for sh := 0; sh < 4; sh++ {
				for b := 0; b < 4; b++ {
					gs = append(gs, geo{W, H, sh, b})
				}
			}
		}
	}
	return gs
}

// small and medium geometries for the bulk of the random cases (cost of the extracted model
// grows with (W*H)^2)
func cheapGeo(r *Rng) geo {
	ws := []int{0, 1, 8, 31, 32, 48, 52, 64, 64, 64, 112}
	hs := []int{0, 1, 8, 16, 24, 31, 32, 32, 48}
	return geo{ws[r.Intn(len(ws))], hs[r.Intn(len(hs))], r.Intn(4), r.Intn(4)}
}

func barFamily(r *Rng, s tst, g geo) {
	s.fmt = 7
	if s.scale == nil {
		s.scale = &[5]int32{1, 0, 100, 0, 0}
	}
	rl, rh := int64(s.scale[1]), int64(s.scale[2])
	lo, hi := rl, rh
	if lo > hi {
		lo, hi = hi, lo
	}
	var vals []int32
	clamp := func(v int64) int32 {
		if v < -2147483648 {
			v = -2147483648
		}
		if v > 2147483647 {
			v = 2147483647
		}
		return int32(v)
	}
	span := hi - lo
	for _, v := range []int64{lo - span - 1, lo - 1, lo, lo + 1, lo + span/3, lo + span/2, hi - 1, hi, hi + 1, hi + span + 1, -2147483648, 2147483647, 0} {
		vals = append(vals, clamp(v))
	}
	for i := 0; i < 8; i++ {
		vals = append(vals, clamp(lo+int64(r.U64()%uint64(span+1))))
	}
	runBar(s, g.W, g.H, g.shrink, g.border, vals)
}

// isSearch: ./check runs the thorough generator a second time as a fallback search when the quick
// run found a model/implementation disagreement but no failing spec predicate.  That search must stay
// short, so it gets its own scope: VERIF_SEARCH=1, or stdout redirected to the check's cases.search file.
func isSearch() bool {
	if os.Getenv("VERIF_SEARCH") == "1" {
		return true
	}
	if l, err := os.Readlink("/proc/self/fd/1"); err == nil && strings.HasSuffix(l, "cases.search") {
		return true
	}
	return false
}

func genC18(tier string, rng *Rng) {
	thorough := tier == "thorough"
	search := thorough && isSearch()
	if search {
		thorough = false // quick-sized scopes, other seed, larger random / centred / malformed streams
	}
	bases := baseStates()
	geos := allGeos()

	// (1) one-factor sweeps of every base state on a few ordinary tiles
	sweepGeos := []geo{{64, 32, 0, 0}, {48, 24, 1, 0}, {112, 32, 2, 1}, {64, 48, 0, 2}}
	if thorough {
		sweepGeos = append(sweepGeos, geo{128, 32, 3, 0}, geo{52, 31, 0, 3}, geo{64, 64, 3, 1}, geo{256, 32, 0, 0})
	}
	n := 0
	for bi, b := range bases {
		for vi, s := range sweeps(b) {
			if thorough {
				for gi := 0; gi < 3; gi++ {
					g := sweepGeos[(bi+vi+gi*3)%len(sweepGeos)]
					runTile(s, g.W, g.H, g.shrink, g.border)
				}
			} else {
				if (vi+bi)%3 != 0 && bi > 1 { // quick: the first two base states fully, a third of the others
					continue
				}
				g := sweepGeos[(bi+vi)%len(sweepGeos)]
				runTile(s, g.W, g.H, g.shrink, g.border)
			}
			n++
		}
	}
	// (2) the geometry grid: every (W,H,shrink,border) in thorough x several states; quick: a covering subset
	for gi, g := range geos {
		if thorough {
			for k := 0; k < len(bases); k++ {
				if g.W*g.H > 128*48 && k%3 != gi%3 {
					continue
				}
				runTile(bases[k], g.W, g.H, g.shrink, g.border)
			}
			runTile(randState(rng), g.W, g.H, g.shrink, g.border)
		} else {
			// each (W,H) with 4 of the 16 shrink/border pairs, rotating so that all 16 pairs and all
			// four values of each occur for every W and every H
			k := (g.shrink*4 + g.border + gi/16) % 4
			if k != 0 {
				continue
			}
			if g.W*g.H > 128*48 {
				runTile(bases[(gi/16)%len(bases)], g.W, g.H, g.shrink, g.border)
			} else {
				runTile(bases[(gi/16)%len(bases)], g.W, g.H, g.shrink, g.border)
				runTile(randState(rng), g.W, g.H, g.shrink, g.border)
			}
		}
	}
	// (3) random structured states on cheap geometries
	nr := 2000
	if thorough {
		nr = 30000
	}
	if search {
		nr = 5000
	}
	for i := 0; i < nr; i++ {
		g := cheapGeo(rng)
		runTile(randState(rng), g.W, g.H, g.shrink, g.border)
	}
	// border > 0 with text larger than the active area (ink at negative relative coordinates)
	nb := 300
	if thorough {
		nb = 3000
	}
	for i := 0; i < nb; i++ {
		s := randState(rng)
		if s.style == nil {
			s.style = &tstyle{}
		}
		s.tfont = &tfont{face: int32(rng.Intn(3)), h: uint32(1 + rng.Intn(3)), w: uint32(rng.Intn(4))}
		if s.l1 == "" {
			s.l1 = "AB"
		}
		W := []int{8, 31, 32, 48, 64}[rng.Intn(5)]
		H := []int{16, 24, 31, 32, 48}[rng.Intn(5)]
		runTile(s, W, H, rng.Intn(4), 1+rng.Intn(3))
	}
	// (4) strength-bar families: one state, many values
	nbar := 150
	if thorough {
		nbar = 1500
	}
	for i := 0; i < nbar; i++ {
		s := randState(rng)
		rg := rangePool[rng.Intn(len(rangePool))]
		s.scale = &[5]int32{1, rg.rl, rg.rh, rg.ll, rg.lh}
		if rng.Intn(4) == 0 {
			a, b := int32(rng.Range(-500, 500)), int32(rng.Range(-500, 500))
			s.scale = &[5]int32{1, a, b, a, b}
		}
		if rng.Intn(5) == 0 {
			s.scale[0] = int32(rng.Intn(4))
		}
		W := []int{8, 31, 32, 48, 52, 64, 112}[rng.Intn(7)]
		H := []int{16, 24, 31, 32, 48}[rng.Intn(5)]
		barFamily(rng, s, geo{W, H, rng.Intn(4), rng.Intn(4)})
	}
	// (4a) centred formats 10/11 whose text fits the active area EXACTLY (and with one column to spare /
	// one too many): the tile width is derived from the width the implementation reports for the text in
	// that font and size (seed C18-8: the last glyph of an exactly fitting line dropped)
	{
		// (the non-ASCII ones end in glyphs whose ink fills the whole advance: the ink overhangs the measured
		// width by one size step and is cut where it meets the border - the thorough tier found the oracle
		// too strict there; they are in the quick tier since)
		texts := []string{"AUX OUTPUT 1", "PROGRAM OUT", "ABC", "AB", "Hi!", "il1.", "Wide WM", "x", "Gr\u00fcn\u00b0", "\u00b0", "\u00c6\u00d8\u00c5", "a\xffb"}
		ne := 0
		for _, txt := range texts {
			for face := 0; face < 3; face++ {
				for _, sz := range [][2]uint32{{1, 1}, {2, 2}, {2, 1}, {3, 3}} {
					if !thorough && !search && (ne+face+int(sz[0]))%3 != 0 {
						ne++
						continue
					}
					ne++
					m := &mono.MonoImg{}
					m.NewImage(8, 8)
					m.SetFont(face, true)
					m.SetTextSize(int(sz[0]), int(sz[1]))
					sw := m.StrWidth(txt)
					lh := int(m.LineHeight())
					for _, fm := range []int32{10, 11} {
						var st tst
						st.fmt = fm
						st.ti, st.l1, st.l2 = txt, txt, pickS(rng, texts[:4])
						st.style = &tstyle{}
						st.tfont = &tfont{face: int32(face), h: sz[1], w: sz[0]}
						for _, g := range []geo{{0, 0, 0, 0}, {0, 0, 1, 0}, {0, 0, 0, 1}, {0, 0, 3, 2}} {
							for _, d := range []int{0, 1, -1, 2} {
								if d == 2 && len(txt) > 0 && txt[len(txt)-1] >= 0x80 {
									d = int(sz[0]) // room for exactly the overhang
								}
								W := sw + 2*g.border + (g.shrink & 1) + d
								H := 2*lh + 2*g.border + (g.shrink >> 1) + 2
								if W < 1 || W > 300 || H > 80 {
									continue
								}
								runTile(st, W, H, g.shrink, g.border)
							}
						}
					}
				}
			}
		}
	}
	// (4b) centred formats 10/11 with multi-byte UTF-8 (2-, 3-, 4-byte sequences), invalid and truncated
	// sequences, on tiles wide enough for the text to fit: the width must be measured in runes
	nu := 400
	if thorough {
		nu = 4000
	}
	if search {
		nu = 1200
	}
	for i := 0; i < nu; i++ {
		var s tst
		s.fmt = int32(10 + rng.Intn(2))
		s.ti, s.l1, s.l2 = pickS(rng, utf8Pool), pickS(rng, utf8Pool), pickS(rng, utf8Pool)
		s.style = &tstyle{ufs: uint32(rng.Intn(4))}
		if rng.Intn(8) == 0 {
			s.style.fixed = true
		}
		if rng.Intn(8) == 0 {
			s.style.spacing = uint32(1 + rng.Intn(3))
		}
		if rng.Intn(5) != 0 {
			s.tfont = &tfont{face: int32(rng.Intn(4)), h: uint32(rng.Intn(3)), w: uint32(rng.Intn(3))}
		}
		if rng.Intn(3) == 0 {
			s.pix, s.bg = randCol(rng), randCol(rng)
		}
		W := []int{64, 112, 128, 128, 256}[rng.Intn(5)]
		H := []int{16, 24, 32, 48, 64}[rng.Intn(5)]
		stat("stream", "utf8-centred")
		runTile(s, W, H, rng.Intn(4), rng.Intn(4))
	}
	// (5) malformed stream: every numeric field anywhere in its Go type's range (padding bounded:
	// a huge TitleBarPadding is a 2^31-row fill, i.e. a hang by construction, outside the documented 0-3),
	// strings of random bytes
	nm := 400
	if thorough {
		nm = 5000
	}
	if search {
		nm = 1000
	}
	anyI32 := func() int32 {
		switch rng.Intn(4) {
		case 0:
			return int32(rng.U64())
		case 1:
			return pickI32(rng, []int32{-2147483648, 2147483647, -1, 0, 1, 255, 256, 65535, 65536})
		default:
			return int32(rng.Range(-20, 20))
		}
	}
	anyU32 := func() uint32 {
		switch rng.Intn(4) {
		case 0:
			return uint32(rng.U64())
		case 1:
			return []uint32{0, 1, 3, 4, 7, 8, 255, 256, 65535, 2147483647, 2147483648, 4294967295}[rng.Intn(12)]
		default:
			return uint32(rng.Intn(20))
		}
	}
	anyStr := func() string { return string(rng.Bytes(rng.Intn(21))) }
	anyCol := func() *tcol {
		if rng.Intn(5) == 0 {
			return nil
		}
		return &tcol{kind: rng.Intn(4), r: anyU32(), g: anyU32(), b: anyU32(), idx: anyI32()}
	}
	for i := 0; i < nm; i++ {
		s := tst{iv: anyI32(), iv2: anyI32(), fmt: anyI32(), si: anyI32(), mi: anyI32(), pm: anyI32(),
			ti: anyStr(), l1: anyStr(), l2: anyStr(), solid: rng.Bool(), pix: anyCol(), bg: anyCol()}
		if rng.Intn(4) != 0 {
			s.scale = &[5]int32{anyI32(), anyI32(), anyI32(), anyI32(), anyI32()}
		}
		if rng.Intn(4) != 0 {
			s.style = &tstyle{fixed: rng.Bool(), pad: uint32(rng.Intn(41)), spacing: anyU32(), ufs: anyU32()}
			if rng.Intn(4) != 0 {
				s.tfont = &tfont{anyI32(), anyU32(), anyU32()}
			}
			if rng.Intn(4) != 0 {
				s.xfont = &tfont{anyI32(), anyU32(), anyU32()}
			}
		}
		g := cheapGeo(rng)
		stat("stream", "malformed")
		runTile(s, g.W, g.H, g.shrink, g.border)
	}
	for g, m := range c18stats {
		mm := map[string]interface{}{}
		for k, v := range m {
			mm[k] = v
		}
		meta(map[string]interface{}{"distribution": g, "counts": mm})
	}
}
