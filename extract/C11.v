Require Extraction.
Require Import ExtrOcamlBasic.
From RP Require Import Run.C11.
Extraction Language OCaml.
Extraction "model.ml" Run.C11.dispatch_line.
