Require Extraction.
Require Import ExtrOcamlBasic.
From RP Require Import Run.C19.
Extraction Language OCaml.
Extraction "model.ml" Run.C19.dispatch_line.
