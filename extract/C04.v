Require Extraction.
Require Import ExtrOcamlBasic.
From RP Require Import Run.C04.
Extraction Language OCaml.
Extraction "model.ml" Run.C04.dispatch_line.
