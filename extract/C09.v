Require Extraction.
Require Import ExtrOcamlBasic.
From RP Require Import Run.C09.
Extraction Language OCaml.
Extraction "model.ml" Run.C09.dispatch_line.
