Require Extraction.
Require Import ExtrOcamlBasic.
From RP Require Import Run.C18.
Extraction Language OCaml.
Extraction "model.ml" Run.C18.dispatch_line.
