Require Extraction.
Require Import ExtrOcamlBasic.
From RP Require Import Run.C16.
Extraction Language OCaml.
Extraction "model.ml" Run.C16.dispatch_line.
