Require Extraction.
Require Import ExtrOcamlBasic.
From RP Require Import Run.C01.
Extraction Language OCaml.
Extraction "model.ml" Run.C01.dispatch_line.
