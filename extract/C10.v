Require Extraction.
Require Import ExtrOcamlBasic.
From RP Require Import Run.C10.
Extraction Language OCaml.
Extraction "model.ml" Run.C10.dispatch_line.
