Require Extraction.
Require Import ExtrOcamlBasic.
From RP Require Import Run.C08.
Extraction Language OCaml.
Extraction "model.ml" Run.C08.dispatch_line.
