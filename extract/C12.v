Require Extraction.
Require Import ExtrOcamlBasic.
From RP Require Import Run.C12.
Extraction Language OCaml.
Extraction "model.ml" Run.C12.dispatch_line.
