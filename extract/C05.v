Require Extraction.
Require Import ExtrOcamlBasic.
From RP Require Import Run.C05.
Extraction Language OCaml.
Extraction "model.ml" Run.C05.dispatch_line.
