Require Extraction.
Require Import ExtrOcamlBasic.
From RP Require Import Run.C20.
Extraction Language OCaml.
Extraction "model.ml" Run.C20.dispatch_line.
