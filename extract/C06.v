Require Extraction.
Require Import ExtrOcamlBasic.
From RP Require Import Run.C06.
Extraction Language OCaml.
Extraction "model.ml" Run.C06.dispatch_line.
