Require Extraction.
Require Import ExtrOcamlBasic.
From RP Require Import Run.C02.
Extraction Language OCaml.
Extraction "model.ml" Run.C02.dispatch_line.
