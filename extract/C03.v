Require Extraction.
Require Import ExtrOcamlBasic.
From RP Require Import Run.C03.
Extraction Language OCaml.
Extraction "model.ml" Run.C03.dispatch_line.
