Require Extraction.
Require Import ExtrOcamlBasic.
From RP Require Import Run.C14.
Extraction Language OCaml.
Extraction "model.ml" Run.C14.dispatch_line.
