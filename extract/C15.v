Require Extraction.
Require Import ExtrOcamlBasic.
From RP Require Import Run.C15.
Extraction Language OCaml.
Extraction "model.ml" Run.C15.dispatch_line.
