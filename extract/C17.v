Require Extraction.
Require Import ExtrOcamlBasic.
From RP Require Import Run.C17.
Extraction Language OCaml.
Extraction "model.ml" Run.C17.dispatch_line.
