Require Extraction.
Require Import ExtrOcamlBasic.
From RP Require Import Run.C13.
Extraction Language OCaml.
Extraction "model.ml" Run.C13.dispatch_line.
