Require Extraction.
Require Import ExtrOcamlBasic.
From RP Require Import Run.C07.
Extraction Language OCaml.
Extraction "model.ml" Run.C07.dispatch_line.
